// Independent reference implementations: strict DNS parser/builder, codecs,
// iodine protocol framing, MD5/login.  No code shared with /repo/src.
#include "ref.h"
#include <zlib.h>
#include <ctype.h>
#include <algorithm>

// ------------------------------------------------------------------ DNS parse
std::string DnsName::dotted() const
{
	std::string s;
	for (size_t i = 0; i < labels.size(); i++) {
		if (i) s += '.';
		s.append((const char *)labels[i].data(), labels[i].size());
	}
	return s;
}

struct NameCtx { std::set<size_t> starts; };

// parse a (possibly compressed) name at off; limit = one past the last byte the
// name may physically occupy.  Returns "" or error.
static std::string parse_name(const Bytes &p, size_t off, size_t limit, NameCtx &cx, DnsName &out, size_t &next)
{
	size_t pos = off;
	bool jumped = false;
	int jumps = 0;
	out.labels.clear(); out.wire_len = 0; out.used_pointer = false;
	std::vector<size_t> newstarts;
	for (;;) {
		size_t lim = jumped ? p.size() : limit;
		if (pos >= lim) return "name runs past its container";
		uint8_t b = p[pos];
		if (b == 0) {
			out.wire_len += 1;
			if (!jumped) next = pos + 1;
			break;
		}
		if ((b & 0xc0) == 0xc0) {
			if (pos + 1 >= lim) return "truncated compression pointer";
			size_t target = ((size_t)(b & 0x3f) << 8) | p[pos + 1];
			if (target >= pos) return "compression pointer does not point backwards";
			if (!cx.starts.count(target)) return "compression pointer not at a label boundary";
			if (!jumped) next = pos + 2;
			jumped = true; out.used_pointer = true;
			if (++jumps > 127) return "compression loop";
			pos = target;
			continue;
		}
		if (b & 0xc0) return "reserved label type";
		if (pos + 1 + b > lim) return "label runs past its container";
		if (!jumped) newstarts.push_back(pos);
		out.labels.push_back(Bytes(p.begin() + pos + 1, p.begin() + pos + 1 + b));
		out.wire_len += 1 + b;
		if (out.wire_len > 255) return "name longer than 255 bytes";
		pos += 1 + b;
	}
	if (out.wire_len > 255) return "name longer than 255 bytes";
	for (size_t s : newstarts) cx.starts.insert(s);
	return "";
}

static std::string parse_rr(const Bytes &p, size_t &off, NameCtx &cx, DnsRR &rr, bool question)
{
	size_t next = 0;
	std::string e = parse_name(p, off, p.size(), cx, rr.name, next);
	if (!e.empty()) return e;
	off = next;
	if (question) {
		if (off + 4 > p.size()) return "truncated question";
		rr.type = (p[off] << 8) | p[off + 1]; rr.klass = (p[off + 2] << 8) | p[off + 3];
		off += 4;
		return "";
	}
	if (off + 10 > p.size()) return "truncated record header";
	rr.type = (p[off] << 8) | p[off + 1]; rr.klass = (p[off + 2] << 8) | p[off + 3];
	rr.ttl = ((uint32_t)p[off + 4] << 24) | (p[off + 5] << 16) | (p[off + 6] << 8) | p[off + 7];
	size_t rdlen = (p[off + 8] << 8) | p[off + 9];
	off += 10;
	if (off + rdlen > p.size()) return "RDLENGTH exceeds message";
	rr.rdata_off = off;
	rr.rdata.assign(p.begin() + off, p.begin() + off + rdlen);
	size_t end = off + rdlen;
	switch (rr.type) {
	case QT_A:
		if (rdlen != 4) return "A record RDLENGTH != 4";
		break;
	case QT_CNAME: case QT_NS: {
		size_t n2 = 0;
		e = parse_name(p, off, end, cx, rr.rname, n2);
		if (!e.empty()) return "rdata name: " + e;
		if (n2 != end) return "RDLENGTH differs from name size";
		break; }
	case QT_MX: {
		if (rdlen < 3) return "MX rdata too short";
		rr.pref = (p[off] << 8) | p[off + 1];
		size_t n2 = 0;
		e = parse_name(p, off + 2, end, cx, rr.rname, n2);
		if (!e.empty()) return "rdata name: " + e;
		if (n2 != end) return "RDLENGTH differs from MX data size";
		break; }
	case QT_SRV: {
		if (rdlen < 7) return "SRV rdata too short";
		rr.pref = (p[off] << 8) | p[off + 1]; rr.weight = (p[off + 2] << 8) | p[off + 3]; rr.port = (p[off + 4] << 8) | p[off + 5];
		size_t n2 = 0;
		e = parse_name(p, off + 6, end, cx, rr.rname, n2);
		if (!e.empty()) return "rdata name: " + e;
		if (n2 != end) return "RDLENGTH differs from SRV data size";
		break; }
	case QT_TXT: {
		size_t q = off;
		if (rdlen == 0) return "TXT with empty rdata";
		while (q < end) {
			size_t l = p[q];
			if (q + 1 + l > end) return "TXT string runs past RDLENGTH";
			rr.txt.push_back(Bytes(p.begin() + q + 1, p.begin() + q + 1 + l));
			q += 1 + l;
		}
		break; }
	default: break;
	}
	off = end;
	return "";
}

std::string dns_parse_strict(const Bytes &p, DnsMsg &m)
{
	m = DnsMsg();
	if (p.size() < 12) return "shorter than a DNS header";
	m.id = (p[0] << 8) | p[1];
	m.qr = p[2] & 0x80; m.opcode = (p[2] >> 3) & 15; m.aa = p[2] & 4; m.tc = p[2] & 2; m.rd = p[2] & 1;
	m.ra = p[3] & 0x80; m.z = (p[3] >> 4) & 7; m.rcode = p[3] & 15;
	size_t qd = (p[4] << 8) | p[5], an = (p[6] << 8) | p[7], ns = (p[8] << 8) | p[9], ar = (p[10] << 8) | p[11];
	size_t off = 12;
	NameCtx cx;
	std::string e;
	for (size_t i = 0; i < qd; i++) { DnsRR r; e = parse_rr(p, off, cx, r, true); if (!e.empty()) return "question " + std::to_string(i) + ": " + e; m.qd.push_back(r); }
	for (size_t i = 0; i < an; i++) { DnsRR r; e = parse_rr(p, off, cx, r, false); if (!e.empty()) return "answer " + std::to_string(i) + ": " + e; m.an.push_back(r); }
	for (size_t i = 0; i < ns; i++) { DnsRR r; e = parse_rr(p, off, cx, r, false); if (!e.empty()) return "authority " + std::to_string(i) + ": " + e; m.ns.push_back(r); }
	for (size_t i = 0; i < ar; i++) { DnsRR r; e = parse_rr(p, off, cx, r, false); if (!e.empty()) return "additional " + std::to_string(i) + ": " + e; m.ar.push_back(r); }
	if (off != p.size()) return "section counts do not account for " + std::to_string(p.size() - off) + " trailing bytes";
	return "";
}

// ------------------------------------------------------------------ DNS build
void put16(Bytes &b, uint16_t v) { b.push_back(v >> 8); b.push_back(v & 0xff); }
void put32(Bytes &b, uint32_t v) { b.push_back(v >> 24); b.push_back(v >> 16); b.push_back(v >> 8); b.push_back(v); }
bool put_name(Bytes &b, const std::string &dotted)
{
	size_t i = 0;
	bool ok = true;
	while (i <= dotted.size()) {
		size_t j = dotted.find('.', i);
		if (j == std::string::npos) j = dotted.size();
		size_t l = j - i;
		if (l == 0) { if (j == dotted.size()) break; ok = false; i = j + 1; continue; }
		if (l > 63) { ok = false; l = 63; }
		b.push_back((uint8_t)l);
		b.insert(b.end(), dotted.begin() + i, dotted.begin() + i + l);
		i = j + 1;
	}
	b.push_back(0);
	return ok;
}
Bytes dns_build_query(uint16_t id, const std::string &name, uint16_t type, bool edns0, bool rd)
{
	Bytes b;
	put16(b, id); b.push_back(rd ? 1 : 0); b.push_back(0);
	put16(b, 1); put16(b, 0); put16(b, 0); put16(b, edns0 ? 1 : 0);
	put_name(b, name); put16(b, type); put16(b, 1);
	if (edns0) { b.push_back(0); put16(b, QT_OPT); put16(b, 4096); put16(b, 0); put16(b, 0x8000); put16(b, 0); }
	return b;
}

// ------------------------------------------------------------------ codecs
static const char A32[] = "abcdefghijklmnopqrstuvwxyz012345";
static const char A64[] = "abcdefghijklmnopqrstuvwxyzABCDEFGHIJKLMNOPQRSTUVWXYZ-0123456789+";
static const char A64U[] = "abcdefghijklmnopqrstuvwxyzABCDEFGHIJKLMNOPQRSTUVWXYZ-0123456789_";
static const unsigned char A128[] =
	"abcdefghijklmnopqrstuvwxyzABCDEFGHIJKLMNOPQRSTUVWXYZ0123456789"
	"\274\275\276\277\300\301\302\303\304\305\306\307\310\311\312\313\314\315\316\317"
	"\320\321\322\323\324\325\326\327\330\331\332\333\334\335\336\337"
	"\340\341\342\343\344\345\346\347\350\351\352\353\354\355\356\357"
	"\360\361\362\363\364\365\366\367\370\371\372\373\374\375";
const char *codec_alphabet(int c) { return c == 5 ? A32 : c == 6 ? A64 : c == 26 ? A64U : (const char *)A128; }
int codec_bits(int c) { return c == 26 ? 6 : c; }
int codec_from_name(const std::string &n)
{
	if (n == "Base32") return 5; if (n == "Base64") return 6; if (n == "Base64u") return 26; if (n == "Base128") return 7;
	return 0;
}
int downenc_codec(char l)
{
	switch (toupper((unsigned char)l)) { case 'T': return 5; case 'S': return 6; case 'U': return 26; case 'V': return 7; case 'R': return 0; }
	return -1;
}
std::string codec_encode(int codec, const Bytes &data)
{
	int bits = codec_bits(codec);
	const unsigned char *al = (const unsigned char *)codec_alphabet(codec);
	std::string out;
	uint32_t acc = 0; int nb = 0;
	for (uint8_t b : data) {
		acc = (acc << 8) | b; nb += 8;
		while (nb >= bits) { out += (char)al[(acc >> (nb - bits)) & ((1u << bits) - 1)]; nb -= bits; }
	}
	if (nb > 0) out += (char)al[(acc << (bits - nb)) & ((1u << bits) - 1)];
	return out;
}
Bytes codec_decode(int codec, const std::string &text)
{
	int bits = codec_bits(codec);
	const unsigned char *al = (const unsigned char *)codec_alphabet(codec);
	int rev[256];
	for (int i = 0; i < 256; i++) rev[i] = 0;   // unknown characters decode as zero, like the documentation of the decoders
	for (int i = 0; i < (1 << bits); i++) rev[al[i]] = i;
	if (codec == 5) for (int i = 0; i < 26; i++) rev['A' + i] = i;
	Bytes out;
	uint32_t acc = 0; int nb = 0;
	for (unsigned char ch : text) {
		acc = (acc << bits) | (uint32_t)rev[ch]; nb += bits;
		if (nb >= 8) { out.push_back((acc >> (nb - 8)) & 0xff); nb -= 8; }
		acc &= 0xffff;
	}
	return out;
}
int b32val(char c)
{
	if (c >= 'a' && c <= 'z') return c - 'a';
	if (c >= 'A' && c <= 'Z') return c - 'A';
	if (c >= '0' && c <= '5') return 26 + c - '0';
	return -1;
}
char b32chr(int v) { return A32[v & 31]; }

// ------------------------------------------------------------------ protocol
std::string undot(const std::string &s) { std::string o; for (char c : s) if (c != '.') o += c; return o; }

bool strip_domain(const std::string &q, const std::string &td, std::string &data)
{
	if (q.size() < td.size()) return false;
	size_t off = q.size() - td.size();
	for (size_t i = 0; i < td.size(); i++) if (tolower((unsigned char)q[off + i]) != tolower((unsigned char)td[i])) return false;
	if (off == 0) { data.clear(); return true; }
	if (q[off - 1] != '.') return false;
	data = q.substr(0, off);   // includes trailing dot, like the server's domain_len
	return true;
}

static bool name_payload(const DnsName &n, Bytes &out)
{
	if (n.labels.size() < 2) return false;
	std::string s;
	for (size_t i = 0; i + 1 < n.labels.size(); i++) s.append((const char *)n.labels[i].data(), n.labels[i].size());
	if (s.empty()) return false;
	int codec;
	switch (tolower((unsigned char)s[0])) { case 'h': codec = 5; break; case 'i': codec = 6; break; case 'j': codec = 26; break; case 'k': codec = 7; break; default: return false; }
	Bytes d = codec_decode(codec, s.substr(1));
	out.insert(out.end(), d.begin(), d.end());
	return true;
}

bool answer_payload(const DnsMsg &m, Bytes &payload, std::string *why)
{
	payload.clear();
	auto fail = [&](const char *w) { if (why) *why = w; return false; };
	if (!m.qr) return fail("not an answer");
	if (m.rcode) return fail("rcode");
	if (m.qd.empty()) return fail("no question");
	if (m.an.empty()) return fail("no answer");
	uint16_t qt = m.qd[0].type;
	if (qt == QT_NULL || qt == QT_PRIVATE) { payload = m.an[0].rdata; return true; }
	if (qt == QT_TXT) {
		for (auto &r : m.an) if (r.type == QT_TXT) {
			std::string s;
			for (auto &t : r.txt) s.append((const char *)t.data(), t.size());
			if (s.empty()) return fail("empty txt");
			int c = downenc_codec(s[0]);
			if (c < 0) return fail("unknown txt codec letter");
			if (c == 0) payload.assign(s.begin() + 1, s.end());
			else payload = codec_decode(c, s.substr(1));
			return true;
		}
		return fail("no TXT record");
	}
	if (qt == QT_CNAME || qt == QT_A) {
		for (auto &r : m.an) if (r.type == QT_CNAME) return name_payload(r.rname, payload) ? true : fail("bad hostname payload");
		return fail("no CNAME record");
	}
	if (qt == QT_MX || qt == QT_SRV) {
		std::map<int, const DnsRR *> by;
		for (auto &r : m.an) if (r.type == qt && !by.count(r.pref)) by[r.pref] = &r;
		bool any = false;
		for (int p = 10; by.count(p); p += 10) { if (!name_payload(by[p]->rname, payload)) break; any = true; }
		return any ? true : fail("no usable MX/SRV record");
	}
	return fail("unsupported type");
}

// hostname-encode up to what fits in one name; returns #bytes consumed
static size_t host_encode(const Bytes &data, size_t off, char downenc, int rot, std::string &name)
{
	int codec = downenc_codec(downenc); char letter = 'h';
	if (codec == 6) letter = 'i'; else if (codec == 26) letter = 'j'; else if (codec == 7) letter = 'k'; else codec = 5;
	// wire budget 255: root(1) + ".xy"(3) + labels; conservative: total text incl dots <= 240
	size_t maxchars = 200;
	int bits = codec_bits(codec);
	size_t maxbytes = (maxchars - 1) * bits / 8;
	size_t n = std::min(maxbytes, data.size() - off);
	std::string enc = letter + codec_encode(codec, Bytes(data.begin() + off, data.begin() + off + n));
	name.clear();
	for (size_t i = 0; i < enc.size(); i += 50) { if (i) name += '.'; name += enc.substr(i, 50); }
	name += '.'; name += (char)('a' + rot % 26); name += (char)('a' + (rot * 7) % 25);
	return n;
}

Bytes build_answer(uint16_t id, const std::string &qname, uint16_t qtype, const Bytes &payload, char downenc, int *enc_count)
{
	Bytes b;
	put16(b, id); b.push_back(0x84); b.push_back(0);
	put16(b, 1); put16(b, 0); put16(b, 0); put16(b, 0);
	put_name(b, qname); put16(b, qtype); put16(b, 1);
	int an = 0;
	// no hidden state: generators run in long-lived worker parents, and a plan must be a function of its seed only
	int rot = (int)((fnv1a(payload.data(), payload.size()) ^ id ^ qname.size()) & 0x7fff);
	size_t used = payload.size();
	auto rrhead = [&](uint16_t t) { put16(b, 0xc00c); put16(b, t); put16(b, 1); put32(b, 0); };
	if (qtype == QT_NULL || qtype == QT_PRIVATE) {
		rrhead(qtype); put16(b, payload.size()); b.insert(b.end(), payload.begin(), payload.end()); an = 1;
	} else if (qtype == QT_TXT) {
		int codec = downenc_codec(downenc);
		std::string s;
		if (codec == 0) { s = "r"; s.append((const char *)payload.data(), payload.size()); }
		else { if (codec < 0) codec = 5; s = std::string(1, codec == 5 ? 't' : codec == 6 ? 's' : codec == 26 ? 'u' : 'v') + codec_encode(codec, payload); }
		Bytes rd;
		for (size_t i = 0; i < s.size(); i += 255) { size_t l = std::min<size_t>(255, s.size() - i); rd.push_back(l); rd.insert(rd.end(), s.begin() + i, s.begin() + i + l); }
		rrhead(QT_TXT); put16(b, rd.size()); b.insert(b.end(), rd.begin(), rd.end()); an = 1;
	} else if (qtype == QT_CNAME || qtype == QT_A) {
		std::string name; used = host_encode(payload, 0, downenc, rot, name);
		Bytes nm; put_name(nm, name);
		rrhead(QT_CNAME); put16(b, nm.size()); b.insert(b.end(), nm.begin(), nm.end()); an = 1;
	} else if (qtype == QT_MX || qtype == QT_SRV) {
		size_t off = 0;
		do {
			std::string name; size_t n = host_encode(payload, off, downenc, rot + an, name);
			Bytes nm; put_name(nm, name);
			rrhead(qtype);
			put16(b, nm.size() + (qtype == QT_SRV ? 6 : 2));
			put16(b, 10 * (an + 1));
			if (qtype == QT_SRV) { put16(b, 10); put16(b, 5060); }
			b.insert(b.end(), nm.begin(), nm.end());
			an++; off += n;
		} while (off < payload.size() && an < 200);
		used = off;
	}
	b[6] = an >> 8; b[7] = an & 0xff;
	if (enc_count) *enc_count = (int)used;
	return b;
}

bool decode_upquery(const std::string &qname, const std::string &td, UpQuery &u)
{
	std::string d;
	if (!strip_domain(qname, td, d)) return false;
	if (d.size() < 2) return false;
	u = UpQuery();
	char c = (char)tolower((unsigned char)d[0]);
	std::string body = d.substr(1);
	if (!body.empty() && body.back() == '.') body.pop_back();
	u.raw = undot(body);
	if ((c >= '0' && c <= '9') || (c >= 'a' && c <= 'f')) {
		u.cmd = 'd';
		u.userid = c <= '9' ? c - '0' : c - 'a' + 10;
		if (d.size() < 6) return false;
		// header characters outside the Base32 alphabet decode as zero
		int h1 = std::max(0, b32val(d[1])), h2 = std::max(0, b32val(d[2])), h3 = std::max(0, b32val(d[3]));
		u.up_seq = (h1 >> 2) & 7; u.up_frag = ((h1 & 3) << 2) | ((h2 >> 3) & 3);
		u.dn_seq = h2 & 7; u.dn_frag = h3 >> 1; u.last = h3 & 1; u.cmc = d[4];
		std::string rest = d.substr(5);
		if (!rest.empty() && rest.back() == '.') rest.pop_back();
		u.enc_payload = undot(rest);
		return true;
	}
	u.cmd = c;
	switch (c) {
	case 'v': case 'l': case 'n': case 'p':
		u.b32 = codec_decode(5, u.raw);
		if ((c == 'l' || c == 'n' || c == 'p') && !u.b32.empty()) u.userid = u.b32[0];
		return true;
	case 'i': case 's': case 'o':
		// characters outside the Base32 alphabet decode as zero (documented decoder behaviour)
		u.userid = std::max(0, b32val(d[1]));
		return true;
	case 'r':
		if (d.size() >= 4) u.userid = (std::max(0, b32val(d[1])) >> 1) & 15;
		return true;
	case 'y': case 'z':
		return true;
	}
	return false;
}

// ------------------------------------------------------------------ MD5 (RFC 1321)
void ref_md5(const uint8_t *data, size_t n, uint8_t out[16])
{
	static const uint32_t K[64] = {
		0xd76aa478,0xe8c7b756,0x242070db,0xc1bdceee,0xf57c0faf,0x4787c62a,0xa8304613,0xfd469501,0x698098d8,0x8b44f7af,0xffff5bb1,0x895cd7be,0x6b901122,0xfd987193,0xa679438e,0x49b40821,
		0xf61e2562,0xc040b340,0x265e5a51,0xe9b6c7aa,0xd62f105d,0x02441453,0xd8a1e681,0xe7d3fbc8,0x21e1cde6,0xc33707d6,0xf4d50d87,0x455a14ed,0xa9e3e905,0xfcefa3f8,0x676f02d9,0x8d2a4c8a,
		0xfffa3942,0x8771f681,0x6d9d6122,0xfde5380c,0xa4beea44,0x4bdecfa9,0xf6bb4b60,0xbebfbc70,0x289b7ec6,0xeaa127fa,0xd4ef3085,0x04881d05,0xd9d4d039,0xe6db99e5,0x1fa27cf8,0xc4ac5665,
		0xf4292244,0x432aff97,0xab9423a7,0xfc93a039,0x655b59c3,0x8f0ccc92,0xffeff47d,0x85845dd1,0x6fa87e4f,0xfe2ce6e0,0xa3014314,0x4e0811a1,0xf7537e82,0xbd3af235,0x2ad7d2bb,0xeb86d391 };
	static const int R[64] = { 7,12,17,22,7,12,17,22,7,12,17,22,7,12,17,22, 5,9,14,20,5,9,14,20,5,9,14,20,5,9,14,20, 4,11,16,23,4,11,16,23,4,11,16,23,4,11,16,23, 6,10,15,21,6,10,15,21,6,10,15,21,6,10,15,21 };
	uint32_t h0 = 0x67452301, h1 = 0xefcdab89, h2 = 0x98badcfe, h3 = 0x10325476;
	Bytes m(data, data + n);
	m.push_back(0x80);
	while (m.size() % 64 != 56) m.push_back(0);
	uint64_t bits = (uint64_t)n * 8;
	for (int i = 0; i < 8; i++) m.push_back((bits >> (8 * i)) & 0xff);
	for (size_t off = 0; off < m.size(); off += 64) {
		uint32_t w[16];
		for (int i = 0; i < 16; i++) w[i] = m[off + 4 * i] | (m[off + 4 * i + 1] << 8) | (m[off + 4 * i + 2] << 16) | ((uint32_t)m[off + 4 * i + 3] << 24);
		uint32_t a = h0, b = h1, c = h2, d = h3;
		for (int i = 0; i < 64; i++) {
			uint32_t f; int g;
			if (i < 16) { f = (b & c) | (~b & d); g = i; }
			else if (i < 32) { f = (d & b) | (~d & c); g = (5 * i + 1) % 16; }
			else if (i < 48) { f = b ^ c ^ d; g = (3 * i + 5) % 16; }
			else { f = c ^ (b | ~d); g = (7 * i) % 16; }
			uint32_t t = d; d = c; c = b;
			uint32_t x = a + f + K[i] + w[g];
			b = b + ((x << R[i]) | (x >> (32 - R[i])));
			a = t;
		}
		h0 += a; h1 += b; h2 += c; h3 += d;
	}
	uint32_t hs[4] = {h0, h1, h2, h3};
	for (int i = 0; i < 4; i++) for (int j = 0; j < 4; j++) out[4 * i + j] = (hs[i] >> (8 * j)) & 0xff;
}

void ref_login(const std::string &password, uint32_t challenge, uint8_t out[16])
{
	uint8_t buf[32];
	memset(buf, 0, 32);
	memcpy(buf, password.data(), std::min<size_t>(32, password.size()));
	for (int i = 0; i < 8; i++) {
		buf[4 * i] ^= challenge >> 24; buf[4 * i + 1] ^= (challenge >> 16) & 0xff;
		buf[4 * i + 2] ^= (challenge >> 8) & 0xff; buf[4 * i + 3] ^= challenge & 0xff;
	}
	ref_md5(buf, 32, out);
}

// ------------------------------------------------------------------ raw + zlib
const uint8_t RAW_MAGIC[3] = {0x10, 0xd1, 0x9e};
Bytes raw_frame(int cmd, int user, const Bytes &payload)
{
	Bytes b = {0x10, 0xd1, 0x9e, (uint8_t)((cmd << 4) | (user & 15))};
	b.insert(b.end(), payload.begin(), payload.end());
	return b;
}
Bytes z_compress(const Bytes &in)
{
	uLongf n = compressBound(in.size());
	Bytes out(n);
	compress2(out.data(), &n, in.data(), in.size(), 9);
	out.resize(n);
	return out;
}
bool z_uncompress(const Bytes &in, Bytes &out)
{
	out.resize(70000);
	uLongf n = out.size();
	if (uncompress(out.data(), &n, in.data(), in.size()) != Z_OK) return false;
	out.resize(n);
	return true;
}

// ------------------------------------------------------------------ re-serialise (what a re-encoding relay does)
static void put_labels(Bytes &b, const DnsName &n) { for (auto &l : n.labels) { b.push_back((uint8_t)l.size()); b.insert(b.end(), l.begin(), l.end()); } b.push_back(0); }
Bytes dns_rebuild(const DnsMsg &m)
{
	Bytes b;
	put16(b, m.id);
	b.push_back((m.qr ? 0x80 : 0) | ((m.opcode & 15) << 3) | (m.aa ? 4 : 0) | (m.tc ? 2 : 0) | (m.rd ? 1 : 0));
	b.push_back((m.ra ? 0x80 : 0) | ((m.z & 7) << 4) | (m.rcode & 15));
	put16(b, (uint16_t)m.qd.size()); put16(b, (uint16_t)m.an.size()); put16(b, (uint16_t)m.ns.size()); put16(b, (uint16_t)m.ar.size());
	// names are compressed against the question name only when identical (the common resolver behaviour)
	size_t qoff = 12;
	for (auto &q : m.qd) { put_labels(b, q.name); put16(b, q.type); put16(b, q.klass); }
	auto put_owner = [&](const DnsName &n) {
		if (!m.qd.empty() && n.labels == m.qd[0].name.labels && !n.labels.empty()) { b.push_back(0xc0 | (qoff >> 8)); b.push_back(qoff & 0xff); }
		else put_labels(b, n);
	};
	auto put_rr = [&](const DnsRR &r) {
		put_owner(r.name); put16(b, r.type); put16(b, r.klass); put32(b, r.ttl);
		Bytes rd;
		switch (r.type) {
		case QT_CNAME: case QT_NS: put_labels(rd, r.rname); break;
		case QT_MX: put16(rd, r.pref); put_labels(rd, r.rname); break;
		case QT_SRV: put16(rd, r.pref); put16(rd, r.weight); put16(rd, r.port); put_labels(rd, r.rname); break;
		default: rd = r.rdata;
		}
		put16(b, (uint16_t)rd.size()); b.insert(b.end(), rd.begin(), rd.end());
	};
	for (auto &r : m.an) put_rr(r);
	for (auto &r : m.ns) put_rr(r);
	for (auto &r : m.ar) put_rr(r);
	return b;
}

// ------------------------------------------------------------------ tunnel-domain matcher (plain and "*."-wildcard server domains)
// data_len = number of characters of qname in front of the matched domain (including the separating dot), as the server counts it
bool tunnel_domain_match(const std::string &qname, const std::string &srv_domain, size_t &data_len)
{
	auto lc = [](std::string x) { for (auto &c : x) c = (char)tolower((unsigned char)c); return x; };
	std::string q = lc(qname), d = lc(srv_domain);
	bool wild = d.size() > 2 && d[0] == '*' && d[1] == '.';
	std::string tail = wild ? d.substr(1) : d;        // ".x.y" or "x.y"
	if (!wild) {
		if (q == tail) { data_len = 0; return true; }
		if (q.size() > tail.size() && q.compare(q.size() - tail.size(), tail.size(), tail) == 0 && q[q.size() - tail.size() - 1] == '.') { data_len = q.size() - tail.size(); return true; }
		return false;
	}
	if (q.size() <= tail.size() || q.compare(q.size() - tail.size(), tail.size(), tail) != 0) return false;
	std::string head = q.substr(0, q.size() - tail.size());
	size_t dot = head.rfind('.');
	std::string label = dot == std::string::npos ? head : head.substr(dot + 1);
	if (label.empty() || label.find('*') != std::string::npos) return false;
	data_len = dot == std::string::npos ? 0 : dot + 1;
	return true;
}
