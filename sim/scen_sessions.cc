// Scenario "sessions": real iodined with real and model clients, adversaries and
// spoofers, virtual time across the 60 s expiry.  Oracles: C03 (authorisation),
// C04 (source check, routing, slot ownership).
#include "scen.h"
#include "gen.h"
#include "model.h"
#include "hostgen.h"
#include <algorithm>
#include <arpa/inet.h>

static bool is_rawf(const Bytes &b) { return b.size() >= 4 && b[0] == 0x10 && b[1] == 0xd1 && b[2] == 0x9e; }

// ================================================================== shared wire model
struct SlotModel {
	bool issued = false;
	uint32_t seed = 0;
	Addr bound;                 // address the challenge was sent to / rebinding by raw login
	std::vector<Addr> bound_hist; // addresses bound earlier in this login generation: a query held from then may still be answered there
	bool logged_in = false, raw_ok = false;
	// liveness is bracketed from the wire: t_lo = latest message that surely counted as activity (it was answered as an
	// accepted, non-repeated request), t_hi = latest message that could possibly have counted. The code's own clock
	// (last_pkt) lies in [t_lo, t_hi]; clauses that need "clearly active" use t_lo, "clearly expired" use t_hi.
	uint64_t t_lo = 0, t_hi = 0;
	std::map<uint16_t, std::pair<uint64_t, bool>> pendq;   // ping/data query id -> (time received, repeat)
	uint64_t t_issue = 0;
	uint32_t assigned_ip_h = 0; // from the login reply on the wire
	uint64_t gen = 0;           // incremented at every VACK
	std::deque<std::string> seen; // recent ping/data query names: repeats are answered from the cache and do not count as activity
};

struct StepInfo {               // the datagram(s) iodined picked up in the current step
	int n = 0;
	Dgram d;
	bool raw = false;
	char cmd = 0;               // lower-case command, 'd' data
	int uid = -1;
	bool parsed = false;
	bool authorised = false;    // per model
	bool open_cmd = false;      // v, z, y: need no authorisation
	bool valid_login = false, valid_rawlogin = false;
	bool repeat = false;        // same query name seen recently from this session
	bool foreign = false;       // names a slot bound to another address (check_ip on)
	bool from_bound = false;
	std::vector<uint64_t> sec_before, full_before;
	std::vector<int64_t> lastpkt_before;
	uint64_t t_hi_before = 0;
};

struct SessionsModel : Monitor {
	World *w;
	bool no_check_ip;
	std::map<int, SlotModel> slot;
	StepInfo step;
	// reference reassembly of downstream per (dst address + uid)
	struct Rx { int seq = -1, frag = -1; Bytes buf; bool active = false; };
	std::map<std::string, Rx> rx;
	std::map<Bytes, std::pair<uint64_t, bool>> srv_offered;   // packet -> (time read, owner clearly expired at read time)
	// captures for the adversary
	Bytes last_login_q, last_data_q, last_rawlogin, last_ping_q; std::vector<Bytes> old_login_q;
	SessionsModel(World *w) : w(w) { no_check_ip = w->cfg.getb("no_check_ip"); }

	bool same_ip(const Addr &a, const Addr &b) { return a.fam == b.fam && a.same_ip(b); }

	void on_recv(Task &t, const Dgram &d) override
	{
		if (&t != w->srv) return;
		if (d.src.fam == AF_INET && d.src.a[0] == 127) return;
		step.n++;
		if (step.n > 1) return;
		step.d = d; step.raw = is_rawf(d.data); step.parsed = false; step.authorised = false; step.open_cmd = false;
		step.valid_login = step.valid_rawlogin = false; step.foreign = false; step.from_bound = false; step.cmd = 0; step.uid = -1;
		int n = peek_nusers();
		step.sec_before.clear(); step.full_before.clear(); step.lastpkt_before.clear();
		for (int u = 0; u < n; u++) { step.sec_before.push_back(peek_secdigest(u)); step.full_before.push_back(peek_fulldigest(u)); UserView v; peek_user(u, v); step.lastpkt_before.push_back(v.last_pkt); }
		if (step.raw) {
			int cmd = d.data[3] >> 4, uid = d.data[3] & 15;
			step.uid = uid; step.cmd = cmd == 1 ? 'L' : cmd == 2 ? 'D' : cmd == 3 ? 'P' : '?';
			step.parsed = true;
			auto it = slot.find(uid);
			if (it == slot.end() || !it->second.issued) return;
			SlotModel &s = it->second;
			step.from_bound = same_ip(d.src, s.bound);
			step.t_hi_before = s.t_hi;
			if (cmd == 1) {
				uint8_t h[16]; ref_login(w->password, s.seed + 1, h);
				if (s.logged_in && d.data.size() >= 20 && !memcmp(&d.data[4], h, 16)) { step.valid_rawlogin = true; step.authorised = true; last_rawlogin = d.data; }
				if (no_check_ip || true) s.t_hi = w->S.now;     // a raw login may count from any address
			} else {
				step.authorised = s.raw_ok && s.logged_in && (no_check_ip || step.from_bound);
				step.foreign = !no_check_ip && !step.from_bound;
				if (no_check_ip || step.from_bound) s.t_hi = w->S.now;    // raw data/ping may count as activity
				// a raw DATA frame of an established raw session from its own address, while that session is surely still alive, is
				// accepted and counts as activity (there is no reply to read that from, unlike pings)
				if (cmd == 2 && step.authorised && s.t_lo && w->S.now - s.t_lo < 57ull * 1000000 && d.data.size() > 4) { s.t_lo = w->S.now; w->probes["c04.rawdata_activity"]++; }
			}
			return;
		}
		DnsMsg m; UpQuery u;
		if (!dns_parse_strict(d.data, m).empty() || m.qr || m.qd.empty()) return;
		if (!decode_upquery(m.qd[0].name.dotted(), w->domain, u)) return;
		step.parsed = true; step.cmd = u.cmd; step.uid = u.userid;
		if (u.cmd == 'v') {
			// a version request of THIS protocol version may allocate a slot; any other one is answered VNAK (or not at all) and
			// must leave every session alone - it is judged like an unauthorised request
			bool right = u.b32.size() >= 4 && u.b32[0] == 0 && u.b32[1] == 0 && u.b32[2] == 5 && u.b32[3] == 2;
			if (right) step.open_cmd = true; else w->probes["c03.other_version_requests"]++;
			return;
		}
		if (u.cmd == 'z' || u.cmd == 'y') { step.open_cmd = true; return; }
		auto it = slot.find(u.userid);
		if (it == slot.end() || !it->second.issued) return;
		SlotModel &s = it->second;
		step.from_bound = same_ip(d.src, s.bound);
		step.foreign = !no_check_ip && !step.from_bound;
		step.t_hi_before = s.t_hi;
		if ((no_check_ip || step.from_bound) && strchr("lpdisorn", u.cmd)) s.t_hi = w->S.now;     // any request of the session from its own address may count as a sign of life
		if (u.cmd == 'l') {
			uint8_t h[16]; ref_login(w->password, s.seed, h);
			if (u.b32.size() >= 18 && !memcmp(&u.b32[1], h, 16) && (no_check_ip || step.from_bound)) { step.valid_login = true; step.authorised = true; }
			if (step.from_bound) { if (!last_login_q.empty()) old_login_q.push_back(last_login_q); last_login_q = d.data; }
			return;
		}
		step.authorised = s.logged_in && (no_check_ip || step.from_bound);
		step.repeat = false;
		if ((u.cmd == 'p' || u.cmd == 'd') && (no_check_ip || step.from_bound)) {
			std::string nm = m.qd[0].name.dotted();
			for (auto &c : nm) c = (char)tolower((unsigned char)c);
			for (auto &x : s.seen) if (x == nm) step.repeat = true;
			s.seen.push_back(nm); if (s.seen.size() > 64) s.seen.pop_front();
			s.pendq[m.id] = {w->S.now, step.repeat};
			if (s.pendq.size() > 64) s.pendq.erase(s.pendq.begin());
		}
		if (step.from_bound && u.cmd == 'd') last_data_q = d.data;
		if (step.from_bound && u.cmd == 'p') last_ping_q = d.data;
	}

	void require_auth(const char *effect)
	{
		if (step.n != 1) return;     // ambiguous attribution
		if (step.authorised) return;
		char b[300];
		snprintf(b, sizeof b, "%s on behalf of a request that is not authorised: cmd=%c uid=%d from %s (%s)", effect, step.cmd ? step.cmd : '?', step.uid, step.d.src.str().c_str(), hexs(step.d.data, 40).c_str());
		w->S.violate("C03", std::string("effect.") + effect, b);
	}

	void on_tun_write(Task &t, const Bytes &) override
	{
		if (&t != w->srv) return;
		w->probes["c03.srv_tun_writes"]++;
		require_auth("tun_write");
	}

	// C18 lookup: a packet read from tun for the address of a surely live, logged-in session must be taken for that session
	struct LookupExp { bool armed = false; int uid = -1; Bytes z; uint64_t gen = 0; Addr bound; bool sent = false; } lk;
	void on_tun_read(Task &t, const Bytes &p) override
	{
		if (&t != w->srv || p.size() < 24) return;
		if ((p[4] >> 4) != 4) { lk.armed = false; w->probes["c18.not_ipv4_frames"]++; return; }     // no tunnel address in it: nobody owns such a frame
		uint32_t dst = ((uint32_t)p[20] << 24) | (p[21] << 16) | (p[22] << 8) | p[23];
		lk.armed = false;
		for (auto &sl : slot) {
			SlotModel &m = sl.second;
			if (!m.issued || !m.logged_in || m.assigned_ip_h != dst || m.t_lo == 0 || w->S.now - m.t_lo > 55ull * 1000000) continue;
			UserView v;
			if (!peek_user(sl.first, v)) continue;
			if (v.conn == 1 && v.out.len > 0 && v.outq_filled >= 4) { w->probes["c18.lookup_queue_full"]++; continue; }   // legitimately dropped
			lk.armed = true; lk.uid = sl.first; lk.z = z_compress(p); lk.gen = m.gen; lk.bound = m.bound; lk.sent = false;
		}
		// grey zone (55..62 s since the last sure sign of life): remember whether the packet was served; if the session turns out to
		// have been alive - a request of it received LATER is still accepted, and liveness cannot come back once lost - an unserved
		// packet was a failed lookup of a live session
		gz.armed = false;
		if (!lk.armed) for (auto &sl : slot) {
			SlotModel &m = sl.second;
			if (!m.issued || !m.logged_in || m.assigned_ip_h != dst || m.t_lo == 0 || w->S.now - m.t_lo <= 55ull * 1000000 || w->S.now - m.t_lo > 64ull * 1000000) continue;
			UserView v;
			if (!peek_user(sl.first, v)) continue;
			if (v.conn == 1 && v.out.len > 0 && v.outq_filled >= 4) continue;
			gz.armed = true; gz.uid = sl.first; gz.z = z_compress(p); gz.gen = m.gen; gz.sent = false; gz.t = w->S.now; gz.dst = dst;
		}
		bool expired_owner = true, any = false;
		for (auto &s : slot) if (s.second.issued && s.second.assigned_ip_h == dst) { any = true; if (s.second.logged_in && w->S.now - s.second.t_hi < 62ull * 1000000) expired_owner = false; }
		srv_offered[p] = {w->S.now, any ? expired_owner : true};
		// ... and a packet for an address whose every owner has been silent for more than a minute must be taken for nobody
		dl.armed = any ? expired_owner : true;       // also an address no session was ever told (or whose slot was re-issued by a new version handshake without a login since)
		if (dl.armed) { dl.z = z_compress(p); dl.dst = dst; }
	}
	struct DeadLookup { bool armed = false; Bytes z; uint32_t dst = 0; } dl;
	struct GreyLookup { bool armed = false; int uid = -1; Bytes z; uint64_t gen = 0, t = 0; uint32_t dst = 0; bool sent = false; } gz;
	struct Unserved { uint64_t gen, t; uint32_t dst; };
	std::map<int, std::vector<Unserved>> unserved;

	void on_send(const Dgram &d, Sock *s) override
	{
		if (!s || s->owner != w->srv) return;
		if (d.dst.fam == AF_INET && d.dst.a[0] == 127) return;
		if (gz.armed && !gz.sent) {
			if (is_rawf(d.data)) { size_t n = std::min(d.data.size() - 4, gz.z.size()); if (d.data.size() > 4 && (n == gz.z.size() || d.data.size() >= 4096) && !memcmp(&d.data[4], gz.z.data(), n)) gz.sent = true; }
			else { DnsMsg m2; Bytes p2; if (dns_parse_strict(d.data, m2).empty() && answer_payload(m2, p2) && p2.size() > 2 && p2.size() - 2 <= gz.z.size() && !memcmp(&p2[2], gz.z.data(), p2.size() - 2)) gz.sent = true; }
		}
		if (lk.armed && !lk.sent) {
			// did this emission carry (the beginning of) the expected packet?
			if (is_rawf(d.data)) { size_t n = std::min(d.data.size() - 4, lk.z.size()); if (d.data.size() > 4 && (n == lk.z.size() || d.data.size() >= 4096) && !memcmp(&d.data[4], lk.z.data(), n)) lk.sent = true; }   // raw frames are cut at the 4 KB send buffer: the lookup still found the owner
			else { DnsMsg m2; Bytes p2; if (dns_parse_strict(d.data, m2).empty() && answer_payload(m2, p2) && p2.size() > 2 && p2.size() - 2 <= lk.z.size() && !memcmp(&p2[2], lk.z.data(), p2.size() - 2)) lk.sent = true; }
		}
		if (is_rawf(d.data)) {
			int cmd = d.data[3] >> 4, uid = d.data[3] & 15;
			if (cmd == 1 && step.n == 1 && step.valid_rawlogin && step.t_hi_before && w->S.now - step.t_hi_before > 62ull * 1000000) {
				// C04: a session silent for more than 60 s is refused - also when the request is a raw login with the right hash
				char b[200]; snprintf(b, sizeof b, "session %d was silent for %.1f s and a raw login for it was still answered", uid, (w->S.now - step.t_hi_before) / 1e6);
				w->S.violate("C04", "expired.accepted.rawlogin", b);
			}
			if (cmd == 1) { if (!(step.n == 1 && step.valid_rawlogin)) require_auth("raw_login_reply"); else { SlotModel &sm = slot[uid]; sm.raw_ok = true; if (!same_ip(sm.bound, step.d.src)) sm.bound_hist.push_back(sm.bound); sm.bound = step.d.src; sm.t_lo = sm.t_hi = w->S.now; w->probes["c03.rawlogin_ok"]++; } }
			else if (cmd == 3 && step.n == 1 && step.raw && step.authorised) { slot[uid].t_lo = w->S.now; }
			else if (cmd == 3) { if (step.n == 1 && step.raw) require_auth("raw_ping_reply"); }
			else if (cmd == 2) {
				// raw downstream data: must be for the session bound to this address and carry its assigned address
				Bytes out;
				if (z_uncompress(Bytes(d.data.begin() + 4, d.data.end()), out)) check_routed(out, uid, d.dst, true);
				// ... and it must go to the address that session is bound to (a frame stamped with Y's user id that is sent to X's
				// address hands Y's packet to X): the raw counterpart of the DNS-mode clause effect.data_answer
				auto it = slot.find(uid);
				if (!no_check_ip && it != slot.end() && it->second.logged_in) {
					bool ok = same_ip(d.dst, it->second.bound);
					for (auto &a : it->second.bound_hist) if (same_ip(d.dst, a)) ok = true;
					w->probes["c04.raw_data_frames"]++;
					if (!ok) { char b[240]; snprintf(b, sizeof b, "raw data frame for session %d sent to %s, but that session is bound to %s", uid, d.dst.str().c_str(), it->second.bound.str().c_str()); w->S.violate("C04", "routing.raw_wrong_address", b); }
				}
			}
			return;
		}
		DnsMsg m; Bytes pl; UpQuery u;
		if (!dns_parse_strict(d.data, m).empty() || m.qd.empty()) return;
		if (!decode_upquery(m.qd[0].name.dotted(), w->domain, u)) return;
		bool has = answer_payload(m, pl);
		if (!has) return;
		std::string ps(pl.begin(), pl.end());
		if (u.cmd == 'v') {
			int cap = (int)std::min<int64_t>(16, ((int64_t)1 << (32 - w->tun_bits)) - 3);
			if (pl.size() >= 4 && !memcmp(pl.data(), "VFUL", 4)) {
				// C18: the pool has min(16, subnet size - 3) slots; "full" may only be said when none of them is free
				w->probes["c18.vful"]++;
				for (int x = 0; x < cap; x++) {
					auto it = slot.find(x);
					bool free_slot = it == slot.end() || !it->second.issued || w->S.now - it->second.t_hi > 62ull * 1000000;
					if (free_slot) { char b[200]; snprintf(b, sizeof b, "server answered VFUL although slot %d of %d is %s", x, cap, it == slot.end() || !it->second.issued ? "unused" : "silent for more than 62 s"); w->S.violate("C18", "pool.full_with_free_slot", b); break; }
				}
				return;
			}
			if (pl.size() >= 9 && !memcmp(pl.data(), "VACK", 4)) {
				int uid = pl[8];
				if (uid >= cap) { char b[160]; snprintf(b, sizeof b, "userid %d handed out, the subnet /%d has room for %d sessions", uid, w->tun_bits, cap); w->S.violate("C18", "pool.size", b); }
				if (uid == cap - 1) w->probes["c18.last_slot_used"]++;
				SlotModel &sm = slot[uid];
				// C04 (3): never hand out a slot whose session was clearly active during the last 60 s
				if (sm.issued && w->S.now - sm.t_lo < 60ull * 1000000 && sm.t_lo > 0) {
					char b[200]; snprintf(b, sizeof b, "slot %d handed to %s although its session was active %.1f s ago", uid, d.dst.str().c_str(), (w->S.now - sm.t_lo) / 1e6);
					w->S.violate("C04", "slot.takeover", b);
				}
				if (sm.issued) w->probes["c04.slot_reused"]++;
				uint64_t g = sm.gen + 1;
				sm = SlotModel(); sm.gen = g;
				sm.issued = true; sm.seed = ((uint32_t)pl[4] << 24) | (pl[5] << 16) | (pl[6] << 8) | pl[7];
				sm.bound = d.dst; sm.t_lo = sm.t_hi = w->S.now; sm.t_issue = w->S.now;
				for (auto it = rx.begin(); it != rx.end();) { if (it->first.rfind(std::to_string(uid) + "@", 0) == 0) it = rx.erase(it); else ++it; }
				w->probes["c03.vack"]++;
			}
			return;
		}
		if (u.cmd == 'l') {
			unsigned a, b, c, dd, e, f, g, h; int mtu, bits;
			if (sscanf(ps.c_str(), "%u.%u.%u.%u-%u.%u.%u.%u-%d-%d", &a, &b, &c, &dd, &e, &f, &g, &h, &mtu, &bits) == 10) {
				if (!(step.n == 1 && step.valid_login)) require_auth("login_accept");
				else {
					SlotModel &sm = slot[u.userid];
					sm.logged_in = true; sm.t_lo = sm.t_hi = w->S.now; sm.assigned_ip_h = (e << 24) | (f << 16) | (g << 8) | h;
					w->probes["c03.login_ok"]++;
					// C04/C18 rider: assigned addresses are distinct, inside the subnet, not the server's
					uint32_t mask = w->tun_bits ? 0xffffffffu << (32 - w->tun_bits) : 0;
					if ((sm.assigned_ip_h & mask) != (w->srv_tun_ip_h & mask) || sm.assigned_ip_h == w->srv_tun_ip_h || (sm.assigned_ip_h & ~mask) == 0 || (sm.assigned_ip_h & ~mask) == ~mask)
					{ w->S.violate("C04", "address.range", "session " + std::to_string(u.userid) + " was assigned " + Addr::v4(sm.assigned_ip_h, 0).str());
					  w->S.violate("C18", "address.range", "session " + std::to_string(u.userid) + " was assigned " + Addr::v4(sm.assigned_ip_h, 0).str() + " (server " + Addr::v4(w->srv_tun_ip_h, 0).str() + "/" + std::to_string(w->tun_bits) + ")"); }
					w->probes["c18.addresses_checked"]++;
					for (auto &o : slot) if (o.first != u.userid && o.second.logged_in && o.second.assigned_ip_h == sm.assigned_ip_h)
					{ w->S.violate("C04", "address.duplicate", "sessions " + std::to_string(u.userid) + " and " + std::to_string(o.first) + " share " + Addr::v4(sm.assigned_ip_h, 0).str());
					  w->S.violate("C18", "address.duplicate", "sessions " + std::to_string(u.userid) + " and " + std::to_string(o.first) + " share " + Addr::v4(sm.assigned_ip_h, 0).str()); }
				}
			} else if (ps == "LNAK" && step.n == 1 && (no_check_ip || step.from_bound) && step.cmd == 'l') slot[u.userid].t_lo = w->S.now;   // a wrong password from the bound address of a live slot still counts as activity (BADIP = refused, does not)
			return;
		}
		bool refused = ps == "BADIP" || ps == "BADLEN" || ps == "BADCODEC" || ps == "BADFRAG" || ps == "LNAK";
		// an accepted handshake request (address, codec, option, probe, fragment size) of a logged-in session from its own address is a
		// sign of life like a ping: the minute between login and the first ping is spent on exactly these
		auto alive = [&]() { if (step.n == 1 && step.authorised && step.uid == u.userid && (no_check_ip || step.from_bound)) { auto it2 = slot.find(u.userid); if (it2 != slot.end() && it2->second.logged_in && it2->second.t_lo && w->S.now - it2->second.t_lo < 57ull * 1000000) { it2->second.t_lo = w->S.now; w->probes["c04.handshake_activity"]++; } } };
		if (u.cmd == 'i') { if (!refused && pl.size() >= 5 && pl[0] == 'I') { w->probes["c03.ip_disclosed"]++; require_auth("address_disclosure"); alive(); } return; }
		if (u.cmd == 's') { if (!refused && codec_from_name(ps)) { w->probes["c03.codec_switched"]++; require_auth("codec_switch"); alive(); } return; }
		if (u.cmd == 'o') { if (!refused && (ps == "Base32" || ps == "Base64" || ps == "Base64u" || ps == "Base128" || ps == "Raw" || ps == "Lazy" || ps == "Immediate")) { w->probes["c03.option_set"]++; require_auth("option_change"); alive(); } return; }
		if (u.cmd == 'n') { if (!refused && pl.size() == 2) { w->probes["c03.fragsize_set"]++; require_auth("fragsize_change"); alive(); } return; }
		if (u.cmd == 'r') { if (!refused && pl.size() >= 2) { require_auth("fragsize_probe_reply"); alive(); } return; }
		if (u.cmd == 'p' || u.cmd == 'd') {
			if (refused || (pl.size() == 1 && pl[0] == 'x')) {
				if (ps == "BADIP") w->probes["c04.badip"]++;
				return;
			}
			if (pl.size() < 2) return;
			// a data/ping answer means the query was accepted: needs an authorised session ...
			// (the answer may be for an earlier held query of the same session: attribute by the question's uid)
			auto it = slot.find(u.userid);
			bool ok = it != slot.end() && it->second.logged_in && (no_check_ip || same_ip(d.dst, it->second.bound));
			if (!ok && it != slot.end() && it->second.logged_in) for (auto &a : it->second.bound_hist) if (same_ip(d.dst, a)) ok = true;
			if (!ok) {
				char b[240]; snprintf(b, sizeof b, "tunnel answer for uid %d sent to %s which is not an authorised session (bound %s)", u.userid, d.dst.str().c_str(), it != slot.end() ? it->second.bound.str().c_str() : "-");
				w->S.violate("C03", "effect.data_answer", b);
				// ... and when the answer carries tunnel data, a packet for the session's tunnel address has gone to an address that
				// is not the session's (e.g. to the previous owner of a re-used slot, on a query the server still held for it)
				if (pl.size() > 2 && !no_check_ip) { snprintf(b, sizeof b, "downstream data of session %d (%zu bytes) sent to %s, but that session is bound to %s", u.userid, pl.size() - 2, d.dst.str().c_str(), it != slot.end() ? it->second.bound.str().c_str() : "-"); w->S.violate("C04", "routing.wrong_address", b); }
				return;
			}
			SlotModel &sm = it->second;
			// this answer proves that the query with this id was accepted: sure activity at the time it was received
			auto pq = sm.pendq.find(m.id);
			if (pq != sm.pendq.end()) {
				if (!pq->second.second && pq->second.first > sm.t_lo) sm.t_lo = pq->second.first;
				if (!pq->second.second) {
					// accepted: the session was alive when this query was received, hence at every earlier moment since its login
					auto us = unserved.find(u.userid);
					if (us != unserved.end()) {
						for (auto &e : us->second) if (e.gen == sm.gen && e.t <= pq->second.first) {
							char b[260]; snprintf(b, sizeof b, "a packet for %s read from tun at %.3f s was not taken for session %d although that session was still alive (a query of it received at %.3f s was accepted)", Addr::v4(e.dst, 0).str().c_str(), e.t / 1e6, u.userid, pq->second.first / 1e6);
							w->S.violate("C18", "lookup.owner_not_found.live", b);
							break;
						}
						us->second.clear();
					}
				}
				sm.pendq.erase(pq);
			}
			// C04: a session silent for more than 60 s must be refused
			if (step.n == 1 && !step.raw && step.uid == u.userid && (no_check_ip || step.from_bound) && (step.cmd == 'p' || step.cmd == 'd')) {
				if (step.t_hi_before && w->S.now - step.t_hi_before > 62ull * 1000000 && (m.id == ((step.d.data[0] << 8) | step.d.data[1]))) {
					char b[200]; snprintf(b, sizeof b, "session %d was silent for %.1f s and its next query was still answered with tunnel data", u.userid, (w->S.now - step.t_hi_before) / 1e6);
					w->S.violate("C04", "expired.accepted", b);
				}
			}
			if (pl.size() > 2) reassemble(u.userid, d.dst, pl);
		}
	}

	void reassemble(int uid, const Addr &dst, const Bytes &pl)
	{
		std::string key = std::to_string(uid) + "@" + dst.str();
		Rx &r = rx[key];
		int seq = (pl[1] >> 5) & 7, frag = (pl[1] >> 1) & 15, last = pl[1] & 1;
		bool take = false;
		if (!r.active || seq != r.seq) { r.seq = seq; r.frag = frag; r.buf.clear(); r.active = true; take = frag == 0; if (!take) r.active = false; }
		else if (frag == r.frag + 1) { r.frag = frag; take = true; }
		else if (frag == r.frag) take = false;
		else { r.active = false; }
		if (!take) return;
		r.buf.insert(r.buf.end(), pl.begin() + 2, pl.end());
		if (last) {
			Bytes out;
			if (z_uncompress(r.buf, out)) check_routed(out, uid, dst, false);
			r.active = false; r.buf.clear();
		}
	}

	void check_routed(const Bytes &pkt, int uid, const Addr &dst, bool rawmode)
	{
		w->probes["c04.routed_packets"]++;
		if (pkt.size() < 24) {
			// too short to contain a destination address: there is no session it could be "for"
			char b[200]; snprintf(b, sizeof b, "a %zu-byte packet without a destination address was delivered to session %d at %s%s", pkt.size(), uid, dst.str().c_str(), rawmode ? " (raw)" : "");
			w->S.violate("C04", "routing.no_address", b);
			return;
		}
		if ((pkt[4] >> 4) != 4) {
			// not an IPv4 packet (the kernel also hands IPv6 router solicitations and the like to the tun reader): it has no tunnel
			// address as its destination, whatever octets lie where an IPv4 destination would be - "otherwise dropped"
			char b[200]; snprintf(b, sizeof b, "a frame that is not IPv4 (version nibble %d) was delivered to session %d at %s%s", pkt[4] >> 4, uid, dst.str().c_str(), rawmode ? " (raw)" : "");
			w->S.violate("C04", "routing.not_ipv4", b);
			return;
		}
		uint32_t ipdst = ((uint32_t)pkt[20] << 24) | (pkt[21] << 16) | (pkt[22] << 8) | pkt[23];
		auto it = slot.find(uid);
		uint32_t assigned = it != slot.end() ? it->second.assigned_ip_h : 0;
		if (ipdst != assigned) {
			char b[240]; snprintf(b, sizeof b, "packet for %s delivered to session %d at %s whose tunnel address is %s%s", Addr::v4(ipdst, 0).str().c_str(), uid, dst.str().c_str(), Addr::v4(assigned, 0).str().c_str(), rawmode ? " (raw)" : "");
			w->S.violate("C04", "routing.wrong_session", b);
			return;
		}
		auto so = srv_offered.find(pkt);
		if (so != srv_offered.end() && so->second.second) {
			char b[200]; snprintf(b, sizeof b, "packet for %s read from tun at %.1fs when no live logged-in session owned that address was still delivered", Addr::v4(ipdst, 0).str().c_str(), so->second.first / 1e6);
			w->S.violate("C04", "routing.dead_session", b);
		}
	}

	void on_block(Task &t) override
	{
		if (&t != w->srv) return;
		if (dl.armed) {
			dl.armed = false;
			w->probes["c18.dead_lookup_checked"]++;
			for (int u = 0, n = peek_nusers(); u < n; u++) {
				std::vector<Bytes> held; peek_outpackets(u, held);
				for (auto &h : held) if (h == dl.z) {
					char b[220]; snprintf(b, sizeof b, "a packet for %s, which no live logged-in session owns (its owner, if any, has been silent for more than 60 s or never logged in), was queued for session %d", Addr::v4(dl.dst, 0).str().c_str(), u);
					w->S.violate("C18", "lookup.dead_owner_found", b);
				}
			}
		}
		if (gz.armed) {
			gz.armed = false;
			auto it = slot.find(gz.uid);
			if (it != slot.end() && it->second.gen == gz.gen) {
				std::vector<Bytes> held; peek_outpackets(gz.uid, held);
				bool ok = gz.sent;
				for (auto &h : held) if (h == gz.z) ok = true;
				w->probes["c18.grey_lookups"]++;
				if (!ok) { unserved[gz.uid].push_back({gz.gen, gz.t, gz.dst}); if (unserved[gz.uid].size() > 32) unserved[gz.uid].erase(unserved[gz.uid].begin()); }
			}
		}
		if (lk.armed) {
			lk.armed = false;
			auto it = slot.find(lk.uid);
			if (it != slot.end() && it->second.gen == lk.gen) {
				std::vector<Bytes> held; peek_outpackets(lk.uid, held);
				bool ok = lk.sent;
				for (auto &h : held) if (h == lk.z) ok = true;
				w->probes["c18.lookup_checked"]++;
				if (!ok) { char b[220]; snprintf(b, sizeof b, "a packet for %s, the address of live logged-in session %d, was neither queued for nor sent to that session", Addr::v4(it->second.assigned_ip_h, 0).str().c_str(), lk.uid); w->S.violate("C18", "lookup.owner_not_found", b); }
			}
		}
		if (step.n == 1) {
			int n = peek_nusers();
			bool unauth = step.parsed && !step.authorised && !step.open_cmd;
			if (!step.parsed) unauth = true;    // not even decodable by the reference: may have no effect at all
			if (unauth && (int)step.sec_before.size() == n) {
				w->probes["c03.unauthorised_steps"]++;
				for (int u = 0; u < n; u++) if (peek_secdigest(u) != step.sec_before[u]) {
					char b[300]; snprintf(b, sizeof b, "security state of session %d changed by an unauthorised request cmd=%c uid=%d from %s (%s)", u, step.cmd ? step.cmd : '?', step.uid, step.d.src.str().c_str(), hexs(step.d.data, 40).c_str());
					w->S.violate("C03", "state.changed", b);
					break;
				}
			}
			// C04 (1): a request naming a slot from a foreign address changes nothing for that session, not even liveness
			if (step.parsed && step.foreign && !step.valid_rawlogin && step.uid >= 0 && step.uid < n && (int)step.full_before.size() == n && !(step.raw && step.cmd == 'L')) {
				w->probes["c04.foreign_requests"]++;
				UserView v; peek_user(step.uid, v);
				if (peek_fulldigest(step.uid) != step.full_before[step.uid] || v.last_pkt != step.lastpkt_before[step.uid]) {
					char b[300]; snprintf(b, sizeof b, "request cmd=%c naming session %d from foreign address %s changed that session (%s)", step.cmd, step.uid, step.d.src.str().c_str(), hexs(step.d.data, 40).c_str());
					w->S.violate("C04", "foreign.changed_state", b);
				}
			}
		}
		step.n = 0;
	}
};

// ================================================================== C08 (server half) for model clients
// The model client builds its data names with its own encoder; after the real server processed a chunk its reassembly buffer
// must hold exactly the bytes sent so far - whatever codec the slot's previous owner had negotiated.
struct ModelExtraction : Monitor {
	World *w;
	struct Chk { bool armed = false; int uid = 0, seq = 0, frag = 0; Bytes want; std::string who; Addr src; } c;
	std::set<std::string> seen;
	ModelExtraction(World *w) : w(w) {}
	void on_recv(Task &t, const Dgram &d) override
	{
		if (&t != w->srv || !w->models || is_rawf(d.data)) return;
		if (w->cfg.getb("no_check_ip")) return;      // with -c anybody may change a session's codec before its options are locked
		DnsMsg m; UpQuery u;
		if (!dns_parse_strict(d.data, m).empty() || m.qr || m.qd.empty() || !decode_upquery(m.qd[0].name.dotted(), w->domain, u) || u.cmd != 'd') return;
		for (auto &p : w->models->clients) {
			ModelClient *mc = p.second.get();
			if (!mc->logged_in || mc->userid != u.userid || !mc->out_active || !mc->knows_password || mc->used_raw) continue;
			Sock *so = (mc->use_v6 && mc->sock6) ? mc->sock6 : mc->sock;
			if (!so || !(so->local.port == d.src.port) || d.src_host != mc->host) continue;
			if ((mc->out_seq & 7) != u.up_seq || (mc->out_frag & 15) != u.up_frag) continue;
			size_t end = mc->out_off + mc->out_sent;
			if (end >= mc->out_cur.size() || u.last) continue;                      // a completed packet is handed on at once
			std::string key = mc->name + "/" + std::to_string(mc->sent_ok.size()) + "/" + std::to_string(mc->userid) + "/" + std::to_string(mc->out_frag);
			if (!seen.insert(key).second) continue;
			c.armed = true; c.uid = u.userid; c.seq = u.up_seq; c.frag = u.up_frag; c.who = mc->name; c.src = d.src;
			c.want.assign(mc->out_cur.begin(), mc->out_cur.begin() + end);
		}
	}
	void on_block(Task &t) override
	{
		if (&t != w->srv || !c.armed) return;
		c.armed = false;
		UserView v;
		if (!peek_user(c.uid, v) || v.in.seqno != c.seq || v.in.fragment != c.frag) return;
		if (!v.authenticated || v.host.fam != c.src.fam || !v.host.same_ip(c.src)) return;       // the slot belongs to somebody else by now: the request was refused
		Bytes got = peek_inpacket(c.uid);
		w->probes["c08.model_prefix_checked"]++;
		if (v.encoder != "Base32") w->probes["c08.model_prefix_checked_non32"]++;
		if (got != c.want) {
			char b[260]; snprintf(b, sizeof b, "after chunk %d/%d of model client %s (session %d, server codec %s) the reassembly buffer holds %zu bytes, the chunks sent so far carry %zu%s", c.seq, c.frag, c.who.c_str(), c.uid, v.encoder.c_str(), got.size(), c.want.size(), got.size() == c.want.size() ? " (different bytes)" : "");
			w->S.violate("C08", "server.extraction", b);
		}
	}
};

// ================================================================== adversary ops
struct Adversary {
	World *w; SessionsModel *sm;
	void op(const J &op)
	{
		std::string kind = op.gets("kind");
		Host *h = w->S.host_by_name(op.gets("from", "atk0"));
		if (!h) { int id = w->S.add_host(op.gets("from", "atk0"), op.gets("from_ip", "10.9.2.1").c_str(), nullptr); h = &w->S.hosts[id]; }
		Addr src = h->ip4; src.port = (uint16_t)op.geti("sport", 5555);
		Addr dst = w->S.hosts[w->srv_host].ip4; dst.port = 53;
		Bytes b;
		if (kind == "replay_login") b = sm->last_login_q;
		else if (kind == "replay_old_login") { if (!sm->old_login_q.empty()) b = sm->old_login_q[op.geti("k", 0) % sm->old_login_q.size()]; }
		else if (kind == "replay_data") b = sm->last_data_q;
		else if (kind == "replay_ping") b = sm->last_ping_q;
		else if (kind == "replay_rawlogin") b = sm->last_rawlogin;
		else if (kind == "raw_with_dns_hash") {
			// lift the 16 hash bytes out of a captured DNS login and present them as a raw login
			DnsMsg m; UpQuery u;
			if (dns_parse_strict(sm->last_login_q, m).empty() && !m.qd.empty() && decode_upquery(m.qd[0].name.dotted(), w->domain, u) && u.b32.size() >= 17)
				b = raw_frame(1, u.b32[0], Bytes(u.b32.begin() + 1, u.b32.begin() + 17));
		}
		if (b.empty()) { w->S.count("op.adv.nothing_captured"); return; }
		if (op.getb("new_id") && b.size() > 2 && !is_rawf(b)) { b[0] ^= 0x5a; b[1] ^= 0xa5; }
		w->S.count("op.adv." + kind);
		w->S.inject(src, h->id, dst, b);
	}
};

// ================================================================== generation
J gen_sessions(uint64_t seed, const J &ov)
{
	Rng r(seed, "sessions");
	std::string focus = ov.gets("focus");
	bool ffrag = focus == "fragsize";
	bool fpool = focus == "pool";
	J plan = J::obj(), cfg = J::obj(), ops = J::arr();
	plan.set("scenario", "sessions"); plan.set("seed", (long long)seed);
	std::string dom = gen_domain(r, (int)r.range(5, 30));
	cfg.set("domain", dom);
	cfg.set("password", gen_password(r));
	int bits = ov.has("tun_bits") ? (int)ov.geti("tun_bits") : (int)(r.chance(0.6) ? r.range(24, 27) : r.range(8, 30));
	if (fpool && !ov.has("tun_bits")) bits = (int)(r.chance(0.5) ? r.range(27, 30) : r.range(8, 30));
	// server host position inside the subnet
	uint32_t base = ((uint32_t)10 << 24) | ((uint32_t)r.range(0, 255) << 16) | ((uint32_t)r.range(0, 255) << 8) | (uint32_t)r.range(0, 255);   // any subnet of 10/8, also ones that do not start at .0
	if (r.chance(0.35)) {
		// other private ranges: addresses whose text form is up to 15 characters long
		uint32_t o1 = 192, o2 = 168;
		switch (r.range(0, 2)) { case 0: o1 = 172; o2 = (uint32_t)r.range(16, 31); break; case 1: o1 = 100; o2 = (uint32_t)r.range(64, 127); break; default: break; }
		base = (o1 << 24) | (o2 << 16) | ((uint32_t)(r.chance(0.6) ? r.range(100, 255) : r.range(0, 255)) << 8) | (uint32_t)(r.chance(0.6) ? r.range(100, 255) : r.range(0, 255));
		if (bits < 16) bits = (int)r.range(16, 30);
	}
	cfg.set("tun_bits", bits);
	uint32_t hostmask = bits >= 32 ? 0 : (0xffffffffu >> bits);
	uint32_t hostpart = (uint32_t)r.range(1, std::max<int64_t>(1, std::min<int64_t>(hostmask - 1, 20)));
	if (r.chance(0.2) && hostmask > 2) hostpart = hostmask - 1;
	uint32_t sip = (base & ~hostmask) | hostpart;
	{ char b[32]; snprintf(b, sizeof b, "%u.%u.%u.%u", sip >> 24, (sip >> 16) & 255, (sip >> 8) & 255, sip & 255); cfg.set("tun_ip", b); }
	cfg.set("no_check_ip", r.chance(0.15));
	cfg.set("srv_v6", r.chance(0.3));
	cfg.set("keep_running", true);
	if (!focus.empty()) cfg.set("focus", focus);
	double T = 90 + r.uniform() * 150;
	bool fsucc = ffrag && r.chance(0.35);          // fragsize focus with a slot changing hands: the new owner must not get answers cut for the old one
	if (ffrag) T = 30 + r.uniform() * 60;
	if (fsucc) T = 150 + r.uniform() * 40;
	cfg.set("tmax_s", (int)T);
	cfg.set("max_events", 3000000);
	int cap = std::min(16, (int)std::min<int64_t>(1 << 20, ((int64_t)1 << (32 - bits)) - 3));
	// real clients
	J cl = J::arr();
	int nreal = (int)r.range(0, 2);
	if (fsucc && r.chance(0.7)) nreal = 0;        // the model that will fall silent then owns slot 0, which the successor inherits
	for (int i = 0; i < nreal; i++) { J c = J::obj(); gen_client_cfg(r, c, true, false, (int)dom.size(), 20); c.set("start_us", (long long)((0.1 + r.uniform() * 10) * 1e6)); cl.push(c); }
	cfg.set("clients", cl);
	// legitimate model clients
	J models = J::arr();
	int nm = (int)(r.chance(0.3) ? r.range(cap - 1, cap + 2) : r.range(1, 6));
	if (ffrag) nm = (int)r.range(1, 3);
	if (fpool) nm = std::min(18, cap + (int)r.range(0, 3));      // enough contenders to fill the pool and be refused
	if (nm < 1) nm = 1;
	if (nm > 18) nm = 18;
	static const char *qts[] = {"NULL", "TXT", "CNAME", "MX", "SRV", "A", "PRIVATE"};
	for (int i = 0; i < nm; i++) {
		J m = J::obj();
		m.set("name", "m" + std::to_string(i)); m.set("ip", "10.9.3." + std::to_string(1 + i));
		if (cfg.getb("srv_v6") && r.chance(0.3)) { m.set("ip6", "fd00::3:" + std::to_string(1 + i)); m.set("use_v6", true); }
		m.set("auto", true); m.set("start_us", (long long)((0.1 + r.uniform() * 25) * 1e6));
		m.set("ping_period", 0.5 + r.uniform() * 6);
		m.set("qtype", qts[r.range(0, 6)]);
		if (ffrag) {
			// C15: F over the whole legal range (and none at all: the conservative default must then hold)
			static const int special[] = {2, 3, 4, 5, 7, 8, 9, 15, 16, 17, 31, 32, 33, 63, 64, 65, 99, 100, 101, 127, 128, 129, 255, 256, 257, 511, 512, 513, 1023, 1024, 1025, 1200, 2047, 2048, 4093, 4094, 4095, 4096, 4097, 8000, 16384, 65535};
			switch (r.range(0, 5)) {
			case 0: break;
			case 1: m.set("fragsize", (int)r.range(2, 30)); break;
			case 2: m.set("fragsize", (int)r.range(30, 300)); break;
			case 3: m.set("fragsize", (int)r.range(300, 5000)); break;
			default: m.set("fragsize", special[r.range(0, 41)]);
			}
			m.set("ping_period", 0.05 + r.uniform() * 0.6);
			static const char *des[] = {"", "", "t", "s", "u", "v", "r"};
			m.set("downenc", des[r.range(0, 6)]);
		} else
		if (r.chance(0.5)) m.set("fragsize", (int)r.range(20, 200));
		m.set("lazy", r.chance(0.3));
		if (!ffrag && r.chance(0.4)) m.set("auto_until_s", 5 + r.uniform() * (T - 70));   // goes silent -> expires after 60 s
		if (fsucc && (i == 0 || r.chance(0.4))) { m.set("auto_until_s", 25 + r.uniform() * 40); m.set("start_us", (long long)((i == 0 ? 0.05 : 0.5 + r.uniform() * 5) * 1e6)); }
		else if (fsucc) m.set("start_us", (long long)((0.5 + r.uniform() * 20) * 1e6));
		m.set("lat_up_us", (long long)r.pick_latency()); m.set("lat_dn_us", (long long)r.pick_latency());
		if (r.chance(0.5)) { static const int ue[] = {6, 26, 7}; m.set("upenc", ue[r.range(0, 2)]); }
		models.push(m);
	}
	// successors: a fresh legitimate client (another address) that shows up 61-75 s after a session fell silent and so inherits
	// its slot; whatever the previous owner negotiated (codecs, fragment size, cached answers) must not leak into the new session
	int nsucc = 0;
	{
		size_t nmod = models.a.size();
		for (size_t i = 0; i < nmod && nsucc < 4; i++) {
			if (!models.a[i].has("auto_until_s") || !r.chance(fsucc ? 0.95 : 0.6)) continue;
			double stop = models.a[i].getd("auto_until_s");
			if (stop + 80 > T) continue;
			J m = J::obj();
			m.set("name", "s" + std::to_string(nsucc)); m.set("ip", "10.9.5." + std::to_string(1 + nsucc));
			m.set("auto", true); m.set("start_us", (long long)((stop + 61 + r.uniform() * 14) * 1e6));
			m.set("ping_period", 0.3 + r.uniform() * 2);
			m.set("qtype", models.a[i].gets("qtype"));
			if (r.chance(0.7)) m.set("replay_from", models.a[i].gets("name"));
			if (r.chance(0.3)) { static const int ue[] = {6, 26, 7}; m.set("upenc", ue[r.range(0, 2)]); }
			if (r.chance(0.3)) m.set("fragsize", (int)r.range(20, 200));
			m.set("lat_up_us", (long long)r.pick_latency()); m.set("lat_dn_us", (long long)r.pick_latency());
			models.push(m);
			nsucc++;
		}
	}
	// adversaries: model clients without the password
	int na = (int)r.range(1, 2);
	for (int i = 0; i < na; i++) {
		J m = J::obj();
		m.set("name", "a" + std::to_string(i)); m.set("ip", "10.9.2." + std::to_string(10 + i));
		m.set("knows_password", false); m.set("auto", false);
		models.push(m);
	}
	cfg.set("models", models);

	auto when = [&]() { return (long long)((1 + r.uniform() * (T - 5)) * 1e6); };
	uint64_t ser = seed % 1000 * 100000;
	// legitimate traffic: tun packets for every model/real client, for unassigned addresses and for the server itself
	int npk = (int)r.range(10, 80);
	if (fpool) npk = (int)r.range(60, 200);
	for (int i = 0; i < npk; i++) {
		J op = J::obj(); op.set("ref", "abs"); op.set("t", when()); op.set("op", "tun"); op.set("at", "srv"); op.set("ser", (long long)++ser);
		op.set("len", (int)r.range(40, 400)); op.set("body", "rnd"); op.set("src", "ext");
		if (r.chance(0.06)) op.set("shape", "v6");     // an IPv6 frame whose octets 16..19 happen to spell a session's tunnel address
		if (ffrag) { static const char *bodies[] = {"rnd", "rnd", "rnd", "text", "zero"}; op.set("body", bodies[r.range(0, 4)]); op.set("len", (int)(r.chance(0.25) ? r.range(1500, 9000) : r.chance(0.5) ? r.range(300, 1500) : r.range(40, 300))); }
		int k = (int)r.range(0, 9);
		if (k <= 6) op.set("dst", "m" + std::to_string(r.range(0, nm - 1)));
		else if (k == 7 && nreal) op.set("dst", "c" + std::to_string(r.range(0, nreal - 1)));
		else if (k == 8) op.set("dst", "srv");
		else { uint32_t a = (sip & ~hostmask) | (uint32_t)r.range(1, std::max<int64_t>(1, std::min<int64_t>(hostmask, 40))); char b[32]; snprintf(b, sizeof b, "%u.%u.%u.%u", a >> 24, (a >> 16) & 255, (a >> 8) & 255, a & 255); op.set("dst", b); }
		ops.push(op);
	}
	if (fsucc) {
		// downstream data right up to the moment a session falls silent, so that its last cached answers carry fragments
		for (auto &m : models.a) if (m.has("auto_until_s") && m.gets("name")[0] == 'm') {
			double stop = m.getd("auto_until_s");
			int k = (int)r.range(2, 8);
			for (int j = 0; j < k; j++) {
				J op = J::obj(); op.set("ref", "abs"); op.set("t", (long long)((stop - 0.2 - r.uniform() * 6) * 1e6)); op.set("op", "tun"); op.set("at", "srv"); op.set("ser", (long long)++ser);
				op.set("len", (int)(r.chance(0.5) ? r.range(300, 1500) : r.range(1500, 6000))); op.set("body", r.chance(0.7) ? "rnd" : "text"); op.set("src", "ext"); op.set("dst", m.gets("name"));
				ops.push(op);
			}
		}
	}
	// upstream packets from model clients (to the server, outside, other clients)
	int nup = (int)r.range(5, 40);
	for (int i = 0; i < nup; i++) {
		J op = J::obj(); op.set("ref", "abs"); op.set("t", when()); op.set("op", "mc"); op.set("who", "m" + std::to_string(r.range(0, nm - 1))); op.set("act", "pkt");
		op.set("ser", (long long)++ser); op.set("len", (int)(r.chance(0.15) ? r.range(5, 23) : r.range(40, 300))); op.set("body", "rnd");   // some too short for an IP header
		op.set("dst", r.chance(0.6) ? "srv" : r.chance(0.5) ? "ext" : "m" + std::to_string(r.range(0, nm - 1)));
		ops.push(op);
	}
	// a legitimate client that mixes modes: raw login, raw ping/data, then DNS-mode pings and data again (the server keeps
	// per-session query state that both paths write)
	if (r.chance(0.35)) {
		std::string who = "m" + std::to_string(r.range(0, nm - 1));
		int k = (int)r.range(3, 14);
		double t0 = 8 + r.uniform() * (T - 20);
		static const char *macts[] = {"rawlogin", "rawping", "rawdata", "p", "p", "pkt", "rawping", "rawdata"};
		for (int i = 0; i < k; i++) {
			J op = J::obj(); op.set("ref", "abs"); t0 += r.uniform() * 1.5; op.set("t", (long long)(t0 * 1e6)); op.set("op", "mc"); op.set("who", who);
			std::string act = i == 0 ? "rawlogin" : macts[r.range(0, 7)];
			op.set("act", act);
			if (act == "rawlogin") op.set("mode", "good");
			if (act == "pkt" || act == "rawdata") { op.set("ser", (long long)++ser); op.set("len", (int)r.range(40, 300)); op.set("body", "rnd"); op.set("dst", "srv"); }
			ops.push(op);
			// client-to-client packets for this session while it is (probably) in raw mode: the server has to pick the raw
			// address of the *recipient*; the senders are DNS-mode sessions
			if (i > 0 && nm > 1 && r.chance(0.35)) {
				J c = J::obj(); c.set("ref", "abs"); c.set("t", (long long)((t0 + r.uniform() * 0.4) * 1e6)); c.set("op", "mc");
				std::string from = "m" + std::to_string(r.range(0, nm - 1));
				if (from != who) { c.set("who", from); c.set("act", "pkt"); c.set("ser", (long long)++ser); c.set("len", (int)r.range(40, 300)); c.set("body", "rnd"); c.set("dst", who); ops.push(c); }
			}
		}
	}
	// traffic of the successors: upstream packets and downstream packets for whatever address they get
	for (int i = 0; i < nsucc; i++) {
		double st = 0;
		for (auto &m : models.a) if (m.gets("name") == "s" + std::to_string(i)) st = m.geti("start_us") / 1e6;
		int k = (int)r.range(2, 12);
		for (int j = 0; j < k; j++) {
			double tt = st + 2 + r.uniform() * std::max(1.0, T - st - 4);
			if (tt >= T - 1) continue;
			J op = J::obj(); op.set("ref", "abs"); op.set("t", (long long)(tt * 1e6));
			if (r.chance(0.6)) { op.set("op", "mc"); op.set("who", "s" + std::to_string(i)); op.set("act", "pkt"); op.set("dst", "srv"); }
			else { op.set("op", "tun"); op.set("at", "srv"); op.set("src", "ext"); op.set("dst", "s" + std::to_string(i)); }
			op.set("ser", (long long)++ser); op.set("len", (int)r.range(40, 500)); op.set("body", "rnd");
			ops.push(op);
		}
	}
	// adversary: own handshake attempts, commands with own and foreign userids, raw frames
	static const char *acts[] = {"v", "l", "p", "n", "i", "s", "o", "r", "rawlogin", "rawping", "rawdata", "pkt"};
	static const char *lmodes[] = {"bad", "zero", "off_by_one", "short", "good"};
	if (ffrag) {
		// fragment size changed in mid-session, including refused values
		int nch = (int)r.range(0, 6);
		for (int i = 0; i < nch; i++) {
			J op = J::obj(); op.set("ref", "abs"); op.set("t", when()); op.set("op", "mc"); op.set("who", "m" + std::to_string(r.range(0, nm - 1))); op.set("act", "n");
			op.set("f", (int)(r.chance(0.25) ? r.range(0, 1) : r.chance(0.5) ? r.range(2, 200) : r.range(200, 65535)));
			ops.push(op);
		}
		J f = J::obj(); f.set("ref", "abs"); f.set("t0_us", (long long)(5e6)); f.set("t1_us", (long long)(T * 1e6));
		f.set("p_drop", r.chance(0.6) ? r.uniform() * 0.25 : 0.0); f.set("p_dup", r.chance(0.4) ? r.uniform() * 0.2 : 0.0);
		f.set("p_delay", r.chance(0.3) ? r.uniform() * 0.2 : 0.0); f.set("max_delay_us", (long long)r.range(1000, 1500000));
		cfg.set("faults", f);
	}
	int nadv = ffrag ? (int)r.range(0, 8) : fpool ? (int)r.range(0, 20) : (int)r.range(20, 200);
	for (int i = 0; i < nadv; i++) {
		J op = J::obj(); op.set("ref", "abs"); op.set("t", when()); op.set("op", "mc"); op.set("who", "a" + std::to_string(r.range(0, na - 1)));
		std::string act = acts[r.range(0, 11)];
		op.set("act", act);
		if (act == "l") op.set("mode", lmodes[r.range(0, 4)]);
		if (act == "rawlogin") op.set("mode", r.chance(0.5) ? "bad" : r.chance(0.5) ? "dnshash" : "short");
		if (act == "n") op.set("f", (int)(r.chance(0.3) ? r.range(0, 2) : r.range(2, 4000)));
		if (act == "r") op.set("f", (int)r.range(0, 2047));
		if (act == "s") op.set("bits", (int)(r.chance(0.7) ? std::vector<int>{5, 6, 26, 7}[r.range(0, 3)] : r.range(0, 31)));
		if (act == "o") op.set("opt", std::string(1, "tsuvrliTSUVRLIxz"[r.range(0, 15)]));
		if (act == "pkt" || act == "rawdata") { op.set("ser", (long long)++ser); op.set("len", (int)r.range(40, 200)); op.set("body", "rnd"); op.set("dst", "srv"); }
		if (r.chance(0.6) && act != "v") op.set("uid", (int)(r.chance(0.8) ? r.range(0, std::max(0, cap - 1)) : r.range(0, 255)));
		// version requests of another protocol version are answered VNAK and must leave every slot alone
		if (act == "v" && r.chance(0.4)) { static const long long vs[] = {0x501, 0x503, 0, 0x0502ffffLL, 0xffffffffLL, 0x80000502LL}; op.set("version", vs[r.range(0, 5)]); }
		ops.push(op);
	}
	// a session that speaks once a minute (iodine -I 60, or a minute of loss): its pings come 59.0-61.0 s apart, so some arrive in
	// the very last second in which the server still accepts the session; packets for it keep arriving from the tun all the time
	if (!ffrag && !fpool && r.chance(0.25)) {
		for (auto &m : models.a) {
			if (m.gets("name")[0] != 'm' || m.has("auto_until_s") || m.getb("lazy") || m.has("use_v6")) continue;
			double t0 = m.geti("start_us") / 1e6 + 6 + r.uniform() * 5;
			if (t0 + 70 > T) break;
			m.set("auto_until_s", t0); m.set("ping_period", 0.2 + r.uniform() * 0.3);   // last sign of life shortly before t0
			double tp = t0 - 0.25;
			while (true) {
				tp += 59.2 + r.uniform() * 1.4;
				if (tp > T - 2) break;
				J op = J::obj(); op.set("ref", "abs"); op.set("t", (long long)(tp * 1e6)); op.set("op", "mc"); op.set("who", m.gets("name")); op.set("act", "p");
				ops.push(op);
				// two packets for it in the second before (few enough that its queue of five never fills)
				for (int j = 0; j < 2; j++) {
					J t2 = J::obj(); t2.set("ref", "abs"); t2.set("t", (long long)((tp - 0.05 - r.uniform() * 0.9) * 1e6)); t2.set("op", "tun"); t2.set("at", "srv"); t2.set("ser", (long long)++ser);
					t2.set("len", (int)r.range(40, 90)); t2.set("body", "rnd"); t2.set("src", "ext"); t2.set("dst", m.gets("name"));
					ops.push(t2);
				}
			}
			cfg.set("models", models);
			break;
		}
	}
	// a raw-mode session that stays busy with DATA frames only (no pings, no DNS traffic) for more than a minute: it is active, its
	// slot must not be given away and packets for its address must keep reaching it
	if (!ffrag && !fpool) for (auto &m : models.a) {
		if (!m.has("auto_until_s") || m.gets("name")[0] != 'm' || m.has("use_v6") || !r.chance(0.35)) continue;
		double stop = m.getd("auto_until_s");
		if (stop + 100 > T || stop < 6) continue;
		m.set("raw_talker", true);
		{ J op = J::obj(); op.set("ref", "abs"); op.set("t", (long long)((stop - 3) * 1e6)); op.set("op", "mc"); op.set("who", m.gets("name")); op.set("act", "rawlogin"); op.set("mode", "good"); ops.push(op); }
		double tt = stop - 2, tend = stop + 70 + r.uniform() * 25;
		while (tt < tend) {
			J op = J::obj(); op.set("ref", "abs"); op.set("t", (long long)(tt * 1e6)); op.set("op", "mc"); op.set("who", m.gets("name")); op.set("act", "rawdata");
			op.set("ser", (long long)++ser); op.set("len", (int)r.range(40, 300)); op.set("body", "rnd"); op.set("dst", "srv");
			ops.push(op);
			tt += 2 + r.uniform() * 9;
		}
		{ J op = J::obj(); op.set("ref", "abs"); op.set("t", (long long)((stop + 62 + r.uniform() * 6) * 1e6)); op.set("op", "mc"); op.set("who", "a" + std::to_string(r.range(0, na - 1))); op.set("act", "v"); ops.push(op); }
		for (int j = 0; j < 3; j++) {
			J t2 = J::obj(); t2.set("ref", "abs"); t2.set("t", (long long)((stop + 30 + r.uniform() * 60) * 1e6)); t2.set("op", "tun"); t2.set("at", "srv"); t2.set("ser", (long long)++ser);
			t2.set("len", (int)r.range(40, 400)); t2.set("body", "rnd"); t2.set("src", "ext"); t2.set("dst", m.gets("name"));
			ops.push(t2);
		}
	}
	// a session that spends more than a minute after its login on handshake requests only (a slow or picky path: codec tests, option
	// switches, fragment size probes), each one accepted and answered - and somebody asking for a slot meanwhile
	if (!ffrag && !fpool && r.chance(0.3)) {
		J k = J::obj(); k.set("name", "g0"); k.set("ip", "10.9.7.1"); k.set("auto", false);
		models.push(k); cfg.set("models", models);
		double tk = 3 + r.uniform() * std::max(1.0, T - 90);
		{ J op = J::obj(); op.set("ref", "abs"); op.set("t", (long long)(tk * 1e6)); op.set("op", "mc"); op.set("who", "g0"); op.set("act", "v"); ops.push(op); }
		{ J op = J::obj(); op.set("ref", "abs"); op.set("t", (long long)((tk + 0.5) * 1e6)); op.set("op", "mc"); op.set("who", "g0"); op.set("act", "l"); op.set("mode", "good"); ops.push(op); }
		static const char *hs[] = {"n", "s", "o", "r", "i"};
		for (double tt = tk + 2; tt < tk + 75 && tt < T - 2; tt += 2 + r.uniform() * 6) {
			J op = J::obj(); op.set("ref", "abs"); op.set("t", (long long)(tt * 1e6)); op.set("op", "mc"); op.set("who", "g0"); op.set("act", hs[r.range(0, 4)]);
			op.set("f", (int)r.range(50, 1200)); op.set("bits", 5); op.set("opt", "t");
			ops.push(op);
		}
		for (int j = 0; j < 2; j++) { J op = J::obj(); op.set("ref", "abs"); op.set("t", (long long)((tk + 61.5 + r.uniform() * 10) * 1e6)); op.set("op", "mc"); op.set("who", "a" + std::to_string(r.range(0, na - 1))); op.set("act", "v"); ops.push(op); }
	}
	// a raw login repeated after its session has expired (a late duplicate, or a replay of the captured datagram): the hash is still
	// the right one for the slot's challenge, but the session is dead
	if (!ffrag && !fpool) for (auto &m : models.a) {
		if (!m.has("auto_until_s") || m.gets("name")[0] != 'm' || m.has("use_v6") || m.getb("raw_talker") || !r.chance(0.4)) continue;
		double stop = m.getd("auto_until_s");
		if (stop + 75 > T || stop < 6) continue;
		{ J op = J::obj(); op.set("ref", "abs"); op.set("t", (long long)((stop - 1.5) * 1e6)); op.set("op", "mc"); op.set("who", m.gets("name")); op.set("act", "rawlogin"); op.set("mode", "good"); ops.push(op); }
		for (int j = 0; j < 2; j++) {
			J op = J::obj(); op.set("ref", "abs"); op.set("t", (long long)((stop + 62.5 + r.uniform() * 8) * 1e6)); op.set("op", "mc"); op.set("who", m.gets("name")); op.set("act", "rawlogin"); op.set("mode", "good");
			if (j) op.set("spoof_ip", "10.9.2." + std::to_string(r.range(1, 3)));
			ops.push(op);
		}
		break;
	}
	// someone who knows the password but skips the DNS login: version handshake, then straight to the raw login
	if (!ffrag && !fpool && r.chance(0.3)) {
		J k = J::obj(); k.set("name", "k0"); k.set("ip", "10.9.6.1"); k.set("auto", false);
		models.push(k); cfg.set("models", models);
		double tk = 5 + r.uniform() * (T - 20);
		{ J op = J::obj(); op.set("ref", "abs"); op.set("t", (long long)(tk * 1e6)); op.set("op", "mc"); op.set("who", "k0"); op.set("act", "v"); ops.push(op); }
		{ J op = J::obj(); op.set("ref", "abs"); op.set("t", (long long)((tk + 0.4) * 1e6)); op.set("op", "mc"); op.set("who", "k0"); op.set("act", "rawlogin"); op.set("mode", "good"); ops.push(op); }
		if (r.chance(0.5)) { J op = J::obj(); op.set("ref", "abs"); op.set("t", (long long)((tk + 0.8) * 1e6)); op.set("op", "mc"); op.set("who", "k0"); op.set("act", "rawping"); ops.push(op); }
		if (r.chance(0.5)) { J op = J::obj(); op.set("ref", "abs"); op.set("t", (long long)((tk + 1.0) * 1e6)); op.set("op", "mc"); op.set("who", "k0"); op.set("act", "rawdata"); op.set("ser", (long long)++ser); op.set("len", 80); op.set("body", "rnd"); op.set("dst", "srv"); ops.push(op); }
	}
	// a slot that changes hands without a login: after a session has expired, someone without the password does the version
	// handshake (and gets the expired slot, the first one free), then packets for the old owner's address arrive from the tun
	if (!ffrag) for (auto &m : models.a) {
		if (!m.has("auto_until_s") || m.gets("name")[0] != 'm' || !r.chance(0.5)) continue;
		double stop = m.getd("auto_until_s");
		if (stop + 75 > T) continue;
		double tv = stop + 61.5 + r.uniform() * 8;
		J op = J::obj(); op.set("ref", "abs"); op.set("t", (long long)(tv * 1e6)); op.set("op", "mc"); op.set("who", "a" + std::to_string(r.range(0, na - 1))); op.set("act", "v");
		ops.push(op);
		if (r.chance(0.4)) { J l = J::obj(); l.set("ref", "abs"); l.set("t", (long long)((tv + 0.3) * 1e6)); l.set("op", "mc"); l.set("who", op.gets("who")); l.set("act", "l"); l.set("mode", lmodes[r.range(0, 3)]); ops.push(l); }
		int k = (int)r.range(1, 4);
		for (int j = 0; j < k; j++) {
			J t2 = J::obj(); t2.set("ref", "abs"); t2.set("t", (long long)((tv + 0.5 + r.uniform() * 4) * 1e6)); t2.set("op", "tun"); t2.set("at", "srv"); t2.set("ser", (long long)++ser);
			t2.set("len", (int)r.range(40, 400)); t2.set("body", "rnd"); t2.set("src", "ext"); t2.set("dst", m.gets("name"));
			ops.push(t2);
		}
	}
	// spoofers: a legitimate-looking request naming a victim's slot, sent from a foreign address (same or other family)
	int nsp = (ffrag || fpool) ? 0 : (int)r.range(10, 80);
	for (int i = 0; i < nsp; i++) {
		J op = J::obj(); op.set("ref", "abs"); op.set("t", when()); op.set("op", "mc"); op.set("who", "a0");
		static const char *sacts[] = {"p", "l", "n", "i", "s", "o", "pkt"};
		std::string act = sacts[r.range(0, 6)];
		op.set("act", act == "pkt" ? "p" : act);
		op.set("uid", (int)r.range(0, std::max(0, cap - 1)));
		if (cfg.getb("srv_v6") && r.chance(0.3)) op.set("spoof_ip6", "fd00::66:" + std::to_string(r.range(1, 9)));
		else op.set("spoof_ip", "10.9.66." + std::to_string(r.range(1, 9)));
		if (act == "l") op.set("mode", "bad");
		ops.push(op);
	}
	// wire-captured replays from a foreign address
	static const char *kinds[] = {"replay_login", "replay_old_login", "replay_data", "replay_ping", "replay_rawlogin", "raw_with_dns_hash"};
	int nrp = ffrag ? 0 : (int)r.range(5, 40);
	for (int i = 0; i < nrp; i++) {
		J op = J::obj(); op.set("ref", "abs"); op.set("t", when()); op.set("op", "adv"); op.set("kind", kinds[r.range(0, 5)]);
		op.set("from", "atk" + std::to_string(r.range(0, 1))); op.set("from_ip", "10.9.2." + std::to_string(r.range(1, 2)));
		op.set("new_id", r.chance(0.5)); op.set("k", (int)r.range(0, 5));
		ops.push(op);
	}
	// generated hostile commands and raw frames (no authorisation can come from them)
	int nh = (ffrag || fpool) ? 0 : (int)r.range(10, 100);
	for (int i = 0; i < nh; i++) {
		J op = J::obj(); op.set("ref", "abs"); op.set("t", when()); op.set("op", "dgram"); op.set("from", "atk2"); op.set("from_ip", "10.9.2.3"); op.set("sport", (int)r.range(1024, 65535)); op.set("to", "srv");
		op.set("hex", hexs(r.chance(0.7) ? hostile_query_command(r, dom, cap) : hostile_raw_frame(r)));
		ops.push(op);
	}
	// late joiners clustered around the moment a silent session becomes reusable (59..62 s after it stopped)
	for (auto &m : models.a) if (m.has("auto_until_s") && r.chance(0.8)) {
		double stop = m.getd("auto_until_s");
		for (int k = 0; k < 3; k++) {
			J op = J::obj(); op.set("ref", "abs"); op.set("t", (long long)((stop + 58 + r.uniform() * 5) * 1e6)); op.set("op", "mc");
			op.set("who", "a" + std::to_string(r.range(0, na - 1))); op.set("act", "v");
			ops.push(op);
		}
		if (r.chance(0.5)) { J op = J::obj(); op.set("ref", "abs"); op.set("t", (long long)((stop + 61 + r.uniform() * 10) * 1e6)); op.set("op", "mc"); op.set("who", m.gets("name")); op.set("act", "resume"); ops.push(op); }
		else if (r.chance(0.5)) { J op = J::obj(); op.set("ref", "abs"); op.set("t", (long long)((stop + 20 + r.uniform() * 38) * 1e6)); op.set("op", "mc"); op.set("who", m.gets("name")); op.set("act", "resume"); ops.push(op); }
	}
	plan.set("cfg", cfg); plan.set("ops", ops);
	return plan;
}

World *build_sessions(const J &plan)
{
	World *w = new World();
	w->plan = plan;
	w->build_common();
	Models *ms = new Models(); ms->w = w; w->models = ms;
	for (auto &m : w->cfg["models"].a) ms->add(m.gets("name"), m);
	SessionsModel *sm = new SessionsModel(w);
	w->add(sm);
	{
		// C18: every subnet from /8 to /30 is a legal configuration; the server has to come up and serve min(16, size-3) sessions
		World *w2 = w;
		w->result_hooks.push_back([w2](J &) {
			if (w2->srv && w2->srv->state == T_EXITED && w2->tun_bits >= 8 && w2->tun_bits <= 30)
				w2->S.violations.push_back({"C18", "pool.server_refused_config", "iodined terminated (exit code " + std::to_string(w2->srv->exit_code) + ") with the legal tunnel subnet /" + std::to_string(w2->tun_bits)});
		});
	}
	w->add(new ModelExtraction(w));
	w->add(mk_c14_ledger(w, false));
	w->add(mk_c15_fragsize(w));
	w->add(mk_probes(w));
	Adversary *adv = new Adversary{w, sm};
	w->op_hook = [adv](const J &op) { if (op.gets("op") == "adv") { adv->op(op); return true; } return false; };
	// model clients also offer/receive packets: register them with the C01 ledger through tun-like hooks
	w->sig = "sessions|/" + std::to_string(w->tun_bits) + (w->cfg.getb("no_check_ip") ? "|-c" : "") + "|m" + std::to_string(w->cfg["models"].a.size()) + "|c" + std::to_string(w->cfg["clients"].a.size());
	World *ww = w;
	w->result_hooks.push_back([ww](J &r) {
		if (ww->plan["cfg"].gets("focus") == "fragsize") r.set("nontriv", ww->probes["c03.login_ok"] >= 1 && ww->probes["c15.multifrag"] >= 1);
		else if (ww->plan["cfg"].gets("focus") == "pool") r.set("nontriv", ww->probes["c03.login_ok"] >= 1 && ww->probes["c18.lookup_checked"] >= 1);
		else r.set("nontriv", ww->probes["c03.login_ok"] >= 1 && ww->probes["c03.unauthorised_steps"] >= 5);
	});
	return w;
}
