// Independent reference implementations (written from doc/proto_00000502.txt and
// RFC 1035; shares no code with /repo/src).
#pragma once
#include "sim.h"

// ---- DNS
struct DnsName {
	std::vector<Bytes> labels;
	size_t wire_len = 0;          // uncompressed wire length incl. root byte
	std::string dotted() const;   // labels joined by '.', raw bytes
	bool used_pointer = false;
};
struct DnsRR {
	DnsName name;
	uint16_t type = 0, klass = 0;
	uint32_t ttl = 0;
	Bytes rdata;                  // raw
	size_t rdata_off = 0;
	// decoded views
	DnsName rname;                // CNAME/NS/MX/SRV target
	uint16_t pref = 0, weight = 0, port = 0;
	std::vector<Bytes> txt;       // TXT strings
};
struct DnsMsg {
	uint16_t id = 0;
	bool qr = false, aa = false, tc = false, rd = false, ra = false;
	int opcode = 0, rcode = 0, z = 0;
	std::vector<DnsRR> qd, an, ns, ar;   // qd uses name/type/klass only
};
// strict parse; returns "" if well formed, else a description of the first defect
std::string dns_parse_strict(const Bytes &pkt, DnsMsg &out);
// lenient helpers for building
void put16(Bytes &b, uint16_t v);
void put32(Bytes &b, uint32_t v);
bool put_name(Bytes &b, const std::string &dotted);   // false if a label is empty/too long
Bytes dns_build_query(uint16_t id, const std::string &name, uint16_t type, bool edns0, bool rd = true);
Bytes dns_rebuild(const DnsMsg &m);   // re-serialise a parsed message (names re-written, question-name compression only)

enum { QT_A = 1, QT_NS = 2, QT_CNAME = 5, QT_NULL = 10, QT_MX = 15, QT_TXT = 16, QT_SRV = 33, QT_OPT = 41, QT_PRIVATE = 65399 };

// ---- codecs: 5 = Base32, 6 = Base64, 26 = Base64u, 7 = Base128
std::string codec_encode(int codec, const Bytes &data);
Bytes codec_decode(int codec, const std::string &text);
const char *codec_alphabet(int codec);
int codec_bits(int codec);
int codec_from_name(const std::string &n);   // "Base32".. -> 5/6/26/7, 0 unknown
int downenc_codec(char letter);              // T/S/U/V -> 5/6/26/7 ; R -> 0 ; else -1

// ---- protocol
// extract the tunnel payload from an answer; returns false if the answer carries none
// (error rcode, no answer record, undecodable).  qtype = question type.
bool answer_payload(const DnsMsg &m, Bytes &payload, std::string *why = nullptr);
// build a server-style answer for a given question (reference encoder)
Bytes build_answer(uint16_t id, const std::string &qname, uint16_t qtype, const Bytes &payload, char downenc, int *enc_count = nullptr);
// strip topdomain (case-insensitive, label boundary); returns false if not under it
bool strip_domain(const std::string &qname, const std::string &topdomain, std::string &data);
std::string undot(const std::string &s);
// is qname tunnel traffic for a server started with srv_domain (plain or "*." wildcard)?  data_len = characters before the matched domain
bool tunnel_domain_match(const std::string &qname, const std::string &srv_domain, size_t &data_len);
int b32val(char c);    // -1 if not in the Base32 alphabet (either case)
char b32chr(int v);

struct UpQuery {           // decoded upstream (client -> server) tunnel query
	char cmd = 0;          // lower-case command letter, 'd' for data
	int userid = -1;
	// data
	int up_seq = 0, up_frag = 0, dn_seq = 0, dn_frag = 0, last = 0;
	char cmc = 0;
	std::string enc_payload;   // undotted encoded payload text (data)
	Bytes b32;                 // Base32-decoded body for v,l,n,p
	std::string raw;           // everything after the command letter, undotted
};
bool decode_upquery(const std::string &qname, const std::string &topdomain, UpQuery &u);

// ---- md5 / login
void ref_md5(const uint8_t *data, size_t n, uint8_t out[16]);
void ref_login(const std::string &password, uint32_t challenge, uint8_t out[16]);

// ---- raw mode
extern const uint8_t RAW_MAGIC[3];
Bytes raw_frame(int cmd, int user, const Bytes &payload);

// zlib helpers (system zlib is trusted base on both sides)
Bytes z_compress(const Bytes &in);
bool z_uncompress(const Bytes &in, Bytes &out);
