// iosim: deterministic simulation driver.
//   iosim --gen SCEN --seed N [--set k=v ...] [--trace F] [--plan-out F]
//   iosim --replay FILE [--trace F] [-v]
//   iosim --worker SCEN --from A --count N --stride K [--set k=v ...]
// Every run executes in a forked child; the parent reports one JSON line per run.
#include "scen.h"
#include "gen.h"
#include <stdio.h>
#include <stdlib.h>
#include <unistd.h>
#include <fcntl.h>
#include <signal.h>
#include <poll.h>
#include <time.h>
#include <sys/wait.h>
#include <sys/mman.h>
#include <sys/personality.h>
#include <string>
#include <fstream>
#include <sstream>

extern "C" {
__attribute__((used)) const char *__asan_default_options() { return "exitcode=77:detect_leaks=0:detect_stack_use_after_return=0:abort_on_error=0:allocator_may_return_null=1:handle_segv=1"; }
__attribute__((used)) const char *__ubsan_default_options() { return "exitcode=77:halt_on_error=1:print_stacktrace=1"; }
}

// ------------------------------------------------------------------ generators shared
std::string gen_domain(Rng &r, int want_len)
{
	static const char *al = "abcdefghijklmnopqrstuvwxyz0123456789";
	if (want_len <= 0) want_len = r.chance(0.7) ? (int)r.range(5, 20) : (int)r.range(3, 60);
	std::string d;
	// at least two labels
	int remaining = want_len;
	int maxl = r.chance(0.3) ? 63 : 20;          // labels up to the legal maximum of 63
	while (remaining > 0) {
		int l = (int)r.range(1, std::min(remaining, maxl));
		if (maxl == 63 && remaining >= 66 && r.chance(0.5)) l = 63;
		if (remaining - l == 1) l++;            // avoid a trailing single dot situation
		if (remaining == want_len && l >= remaining) l = remaining - 2 > 0 ? remaining - 2 : 1;
		for (int i = 0; i < l; i++) d += al[r.range(0, (i == 0) ? 25 : 35)];
		remaining -= l;
		if (remaining > 1) { d += '.'; remaining--; } else break;
	}
	if (d.find('.') == std::string::npos) d += ".x";
	if (d.size() < 3) d = "a.b";
	return d;
}
std::string gen_password(Rng &r)
{
	static const char *al = "abcdefghijklmnopqrstuvwxyzABCDEFGHIJKLMNOPQRSTUVWXYZ0123456789!%+,./:=@_";
	int n = r.chance(0.8) ? (int)r.range(1, 20) : (int)r.range(20, 40);
	std::string p;
	for (int i = 0; i < n; i++) p += al[r.range(0, 71)];
	return p;
}

// ------------------------------------------------------------------ dispatch
J gen_hostile_srv(uint64_t seed, const J &ov);
World *build_hostile_srv(const J &plan);
J gen_hostile_cli(uint64_t seed, const J &ov);
World *build_hostile_cli(const J &plan);
J gen_sessions(uint64_t seed, const J &ov);
World *build_sessions(const J &plan);
J gen_forward(uint64_t seed, const J &ov);
World *build_forward(const J &plan);
J gen_probe(uint64_t seed, const J &ov);
World *build_probe(const J &plan);
J gen_fakesrv(uint64_t seed, const J &ov);
World *build_fakesrv(const J &plan);

static J gen_plan_inner(const std::string &scen, uint64_t seed, const J &ov);
J gen_plan(const std::string &scen, uint64_t seed, const J &ov)
{
	J p = gen_plan_inner(scen, seed, ov);
	if (ov.getb("pair")) {
		p.set("pair_residue", (int)(1 + splitmix64(seed ^ 0x51ed) % 4));
		// history differential: only where an out-of-domain query is inert (no -b forwarding) and the server is the judged party
		if ((scen == "hostile_srv" || scen == "sessions") && !p["cfg"].geti("bind_port") && splitmix64(seed ^ 0xdec0) % 2 == 0) p.set("pair_decoy", true);
	}
	return p;
}
static J gen_plan_inner(const std::string &scen, uint64_t seed, const J &ov)
{
	if (scen == "tunnel") return gen_tunnel(seed, ov);
	if (scen == "hostile_srv") return gen_hostile_srv(seed, ov);
	if (scen == "hostile_cli") return gen_hostile_cli(seed, ov);
	if (scen == "sessions") return gen_sessions(seed, ov);
	if (scen == "forward") return gen_forward(seed, ov);
	if (scen == "probe") return gen_probe(seed, ov);
	if (scen == "fakesrv") return gen_fakesrv(seed, ov);
	J p = J::obj(); p.set("scenario", scen); p.set("seed", (long long)seed); p.set("error", "unknown scenario");
	return p;
}

static World *build_world(const J &plan)
{
	std::string scen = plan.gets("scenario");
	if (scen == "tunnel") return build_tunnel(plan);
	if (scen == "hostile_srv") return build_hostile_srv(plan);
	if (scen == "hostile_cli") return build_hostile_cli(plan);
	if (scen == "sessions") return build_sessions(plan);
	if (scen == "forward") return build_forward(plan);
	if (scen == "probe") return build_probe(plan);
	if (scen == "fakesrv") return build_fakesrv(plan);
	return nullptr;
}

static const char *g_fatelog_path = nullptr;   // child only: fired fates are appended here so that a run that dies is still replayable

J run_plan(const J &plan, int verbose, const char *trace_path)
{
	World *w = build_world(plan);
	if (w && g_fatelog_path) {
		FILE *fl = fopen(g_fatelog_path, "w");
		if (fl) w->S.on_fired = [w, fl](const std::pair<int, uint64_t> &k, const Fate &f) { std::string s = w->fate_json(k, f).dump(); fputs(s.c_str(), fl); fputc('\n', fl); fflush(fl); };
	}
	if (!w) { J r = J::obj(); r.set("error", "cannot build scenario " + plan.gets("scenario")); return r; }
	w->S.verbose = verbose;
	if (trace_path) w->S.trace = fopen(trace_path, "w");
	if (plan.has("residue_override")) w->S.residue_mode = (int)plan.geti("residue_override");
	if (plan.has("residue_override")) w->S.poison_tails = true;      // second run of a pair only: the first keeps whatever earlier replies/commands left in the decode buffers
	if (plan.has("decoy_override")) w->S.decoy_variant = (int)plan.geti("decoy_override");
	w->run();
	J r = w->result();
	if (w->S.trace) fclose(w->S.trace);
	return r;
}

// ------------------------------------------------------------------ child management
extern "C" void __sanitizer_set_report_path(const char *) __attribute__((weak));

static std::string read_file(const std::string &p) { std::ifstream f(p); std::stringstream ss; ss << f.rdbuf(); return ss.str(); }

// run one plan in a child; returns the result line (JSON text)
static std::string run_child(const J &plan, int verbose, const char *trace_path, int watchdog_s, const std::string &sanlog_dir)
{
	int pfd[2];
	if (pipe(pfd)) return "{\"error\":\"pipe\"}";
	fflush(stdout); fflush(stderr);
	char logbase[256]; snprintf(logbase, sizeof logbase, "%s/san.%d.%ld", sanlog_dir.c_str(), (int)getpid(), (long)plan.geti("seed"));
	if (!g_curtask_shm) g_curtask_shm = (char *)mmap(nullptr, 4096, PROT_READ | PROT_WRITE, MAP_SHARED | MAP_ANONYMOUS, -1, 0);
	g_curtask_shm[0] = 0;
	pid_t pid = fork();
	if (pid == 0) {
		close(pfd[0]);
		if (!verbose) { int dn = open("/dev/null", O_WRONLY); if (dn >= 0) { dup2(dn, 2); } }
		// sanitizer report goes to a file the parent can read
		{

			if (__sanitizer_set_report_path) __sanitizer_set_report_path(logbase);
		}
		static char flp[300]; snprintf(flp, sizeof flp, "%s.fates.%d", logbase, (int)getpid());
		g_fatelog_path = flp;
		J r = run_plan(plan, verbose, trace_path);
		unlink(flp);
		std::string s = r.dump();
		s += "\n";
		size_t off = 0;
		while (off < s.size()) { ssize_t n = write(pfd[1], s.data() + off, s.size() - off); if (n <= 0) break; off += n; }
		_exit(0);
	}
	close(pfd[1]);
	std::string out;
	struct timespec t0; clock_gettime(CLOCK_MONOTONIC, &t0);
	bool killed = false;
	for (;;) {
		struct pollfd p = {pfd[0], POLLIN, 0};
		int pr = poll(&p, 1, 1000);
		struct timespec t1; clock_gettime(CLOCK_MONOTONIC, &t1);
		if (pr > 0) {
			char buf[65536];
			ssize_t n = read(pfd[0], buf, sizeof buf);
			if (n > 0) { out.append(buf, n); continue; }
			break;
		}
		if (t1.tv_sec - t0.tv_sec > watchdog_s) { kill(pid, SIGKILL); killed = true; break; }
	}
	close(pfd[0]);
	int st = 0;
	waitpid(pid, &st, 0);
	if (!out.empty() && out.back() == '\n' && WIFEXITED(st) && WEXITSTATUS(st) == 0) {
		char path[300]; snprintf(path, sizeof path, "%s.%d", logbase, (int)pid); unlink(path);      // ASan's makecontext warning, nothing else
		out.pop_back(); return out;
	}
	// abnormal end: classify
	J r = J::obj();
	r.set("scenario", plan.gets("scenario")); r.set("seed", (long long)plan.geti("seed"));
	std::string kind = killed ? "hang" : (WIFSIGNALED(st) ? "signal" + std::to_string(WTERMSIG(st)) : "exit" + std::to_string(WEXITSTATUS(st)));
	bool san = WIFEXITED(st) && WEXITSTATUS(st) == 77;
	if (san) kind = "sanitizer";
	r.set("crash", kind);
	r.set("task", std::string(g_curtask_shm));
	// sanitizer log
	std::string log;
	{
		char path[300]; snprintf(path, sizeof path, "%s.%d", logbase, (int)pid);
		log = read_file(path);
		unlink(path);
	}
	std::string where, what;
	{
		// first line with "ERROR:" or "runtime error:", first frame inside /repo/src
		std::istringstream is(log); std::string line;
		while (std::getline(is, line)) {
			if (what.empty() && (line.find("ERROR: AddressSanitizer") != std::string::npos || line.find("runtime error:") != std::string::npos)) {
				size_t p = line.find("ERROR: AddressSanitizer: ");
				if (p != std::string::npos) { what = line.substr(p + 25); size_t sp = what.find(' '); if (sp != std::string::npos) what = what.substr(0, sp); what = "asan:" + what; }
				else { p = line.find("runtime error:"); what = "ubsan:" + line.substr(p + 15); }
			}
			if (where.empty()) {
				size_t p = line.find("/repo/src/");
				size_t f = line.find(" in ");
				if (p != std::string::npos && line.find("#") != std::string::npos && f != std::string::npos) {
					std::string fn = line.substr(f + 4, line.find(' ', f + 4) - f - 4);
					std::string loc = line.substr(p + 10);
					where = fn + "@" + loc;
				}
			}
		}
	}
	{
		char path[300]; snprintf(path, sizeof path, "%s.fates.%d", logbase, (int)pid);
		std::istringstream is(read_file(path)); std::string line; J fl = J::arr();
		while (std::getline(is, line)) { J o; if (J::parse(line, o) && o.k == J::OBJ) fl.push(o); }
		r.set("fired", fl);
		unlink(path);
	}
	r.set("what", what); r.set("where", where);
	r.set("log", log.substr(0, 3000));
	r.set("partial", out.substr(0, 200));
	return r.dump();
}

// C12: run the same plan twice, differing only in what the receive buffers hold beyond each
// datagram; any difference in observable behaviour (fingerprint or abnormal end) is a violation.
static std::string run_maybe_pair(const J &plan, int verbose, const char *trace_path, int watchdog_s, const std::string &sanlog_dir)
{
	if (!plan.has("pair_residue")) return run_child(plan, verbose, trace_path, watchdog_s, sanlog_dir);
	J pa = plan, pb = plan;
	pa.set("residue_override", 0);
	pb.set("residue_override", (int)plan.geti("pair_residue"));
	if (plan.getb("pair_decoy")) { pa.set("decoy_override", 1); pb.set("decoy_override", 2); }
	std::string sa = run_child(pa, verbose, trace_path, watchdog_s, sanlog_dir);
	std::string tb = trace_path ? std::string(trace_path) + ".b" : std::string();
	std::string sb = run_child(pb, verbose, trace_path ? tb.c_str() : nullptr, watchdog_s, sanlog_dir);
	J ra, rb;
	if (!J::parse(sa, ra) || !J::parse(sb, rb)) return sa;
	bool ca = ra.has("crash"), cb = rb.has("crash");
	std::string fa = ra.gets("fp"), fb = rb.gets("fp");
	ra.set("pair", true);
	if (ca != cb || (!ca && fa != fb) || (ca && ra.gets("what") != rb.gets("what"))) {
		J v = ra.has("viol") ? ra["viol"] : J::arr();
		J o = J::obj(); o.set("p", "C12");
		o.set("clause", ca != cb ? "residue.crash_differs" : "residue.behaviour_differs");
		o.set("detail", "same plan, receive-buffer residue 0 vs " + std::to_string(plan.geti("pair_residue")) + ": " + (ca ? "crash " + ra.gets("what") : "fp " + fa) + " vs " + (cb ? "crash " + rb.gets("what") : "fp " + fb));
		v.push(o);
		ra.set("viol", v);
		if (ca && !cb) { ra.set("fp", fb); }
	}
	return ra.dump();
}

static J apply_sets(const std::vector<std::string> &sets)
{
	J ov = J::obj();
	for (auto &s : sets) {
		size_t eq = s.find('=');
		if (eq == std::string::npos) continue;
		std::string k = s.substr(0, eq), v = s.substr(eq + 1);
		char *end = nullptr; long long iv = strtoll(v.c_str(), &end, 10);
		if (end && *end == 0 && !v.empty()) ov.set(k, iv);
		else if (v == "true") ov.set(k, true); else if (v == "false") ov.set(k, false);
		else ov.set(k, v);
	}
	return ov;
}

int main(int argc, char **argv)
{
	// Address-space randomisation off: values that depend on addresses (uninitialised stack slots holding pointers,
	// allocator placement) are then the same in every process, so even defects that read such memory replay exactly.
	if (!getenv("IOSIM_ASLR_OFF")) {
		int pers = personality(0xffffffff);
		if (pers != -1 && !(pers & ADDR_NO_RANDOMIZE) && personality(pers | ADDR_NO_RANDOMIZE) != -1) {
			setenv("IOSIM_ASLR_OFF", "1", 1);
			execv("/proc/self/exe", argv);
		}
		setenv("IOSIM_ASLR_OFF", "0", 1);
	}
	std::string mode, scen, file, trace, planout, sanlog = "/tmp";
	long long seed = 1, from = 0, count = 1, stride = 1;
	int verbose = 0, watchdog = 90;
	bool nofork = false;
	std::vector<std::string> sets;
	for (int i = 1; i < argc; i++) {
		std::string a = argv[i];
		auto nx = [&]() { return i + 1 < argc ? std::string(argv[++i]) : std::string(); };
		if (a == "--gen") { mode = "gen"; scen = nx(); }
		else if (a == "--replay") { mode = "replay"; file = nx(); }
		else if (a == "--worker") { mode = "worker"; scen = nx(); }
		else if (a == "--seed") seed = atoll(nx().c_str());
		else if (a == "--from") from = atoll(nx().c_str());
		else if (a == "--count") count = atoll(nx().c_str());
		else if (a == "--stride") stride = atoll(nx().c_str());
		else if (a == "--set") sets.push_back(nx());
		else if (a == "--trace") trace = nx();
		else if (a == "--plan-out") planout = nx();
		else if (a == "--sanlog") sanlog = nx();
		else if (a == "--watchdog") watchdog = atoi(nx().c_str());
		else if (a == "--nofork") nofork = true;
		else if (a == "-v") verbose++;
	}
	signal(SIGPIPE, SIG_IGN);
	J ov = apply_sets(sets);
	if (mode == "gen") {
		J plan = gen_plan(scen, (uint64_t)seed, ov);
		if (!planout.empty()) { std::ofstream f(planout); f << plan.dump() << "\n"; }
		if (nofork) { J r = run_plan(plan, verbose, trace.empty() ? nullptr : trace.c_str()); printf("%s\n", r.dump().c_str()); return 0; }
		std::string r = run_maybe_pair(plan, verbose, trace.empty() ? nullptr : trace.c_str(), watchdog, sanlog);
		printf("%s\n", r.c_str());
		return 0;
	}
	if (mode == "replay") {
		J plan;
		if (!J::parse(read_file(file), plan) || plan.k != J::OBJ) { fprintf(stderr, "cannot parse %s\n", file.c_str()); return 2; }
		for (auto &p : ov.o) plan.set(p.first, p.second);
		if (nofork) { J r = run_plan(plan, verbose, trace.empty() ? nullptr : trace.c_str()); printf("%s\n", r.dump().c_str()); return 0; }
		std::string r = run_maybe_pair(plan, verbose, trace.empty() ? nullptr : trace.c_str(), watchdog, sanlog);
		printf("%s\n", r.c_str());
		return 0;
	}
	if (mode == "worker") {
		for (long long i = 0; i < count; i++) {
			long long s = from + i * stride;
			J plan = gen_plan(scen, (uint64_t)s, ov);
			std::string r = run_maybe_pair(plan, 0, nullptr, watchdog, sanlog);
			fputs(r.c_str(), stdout); fputc('\n', stdout); fflush(stdout);
		}
		return 0;
	}
	fprintf(stderr, "usage: iosim --gen SCEN --seed N | --replay FILE | --worker SCEN --from A --count N --stride K\n");
	return 2;
}
