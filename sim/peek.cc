// Reads iodined's users[] (extern in /repo/src/user.h).  Compiled against the
// repo's own headers so a layout change is followed automatically.
#include "peek.h"
extern "C" {
#include <time.h>
#include "common.h"
#include "encoding.h"
#include "user.h"
extern unsigned usercount;
}

int peek_nusers() { return users ? (int)usercount : 0; }

static PktView pv(const struct packet &p) { return PktView{p.len, p.sentlen, p.offset, p.seqno, p.fragment}; }

bool peek_user(int u, UserView &v)
{
	if (!users || u < 0 || u >= (int)usercount) return false;
	const struct tun_user &x = users[u];
	v.id = u;
	v.active = x.active; v.authenticated = x.authenticated; v.authenticated_raw = x.authenticated_raw;
	v.options_locked = x.options_locked; v.disabled = x.disabled;
	v.last_pkt = x.last_pkt; v.seed = (uint32_t)x.seed; v.tun_ip_net = x.tun_ip;
	v.host = Addr::from_sockaddr((const struct sockaddr *)&x.host, sizeof x.host);
	v.conn = x.conn; v.lazy = x.lazy; v.fragsize = x.fragsize; v.downenc = x.downenc;
	v.encoder = x.encoder ? std::string(x.encoder->name, strnlen(x.encoder->name, 8)) : "";
	v.q_id = x.q.id; v.q_id2 = x.q.id2; v.qsrs_id = x.q_sendrealsoon.id; v.qsrs_id2 = x.q_sendrealsoon.id2; v.qsrs_new = x.q_sendrealsoon_new;
	v.in = pv(x.inpacket); v.out = pv(x.outpacket);
	v.outfragresent = x.outfragresent;
	v.outq_filled = x.outpacketq_filled; v.outq_next = x.outpacketq_nexttouse;
	v.dnscache_last = x.dnscache_lastfilled;
	return true;
}

void peek_outpackets(int u, std::vector<Bytes> &out)
{
	out.clear();
	if (!users || u < 0 || u >= (int)usercount) return;
	const struct tun_user &x = users[u];
	if (x.outpacket.len > 0 && x.outpacket.len <= (int)sizeof x.outpacket.data) out.push_back(B(x.outpacket.data, x.outpacket.len));
	for (int i = 0; i < x.outpacketq_filled && i < OUTPACKETQ_LEN; i++) {
		int k = (x.outpacketq_nexttouse + i) % OUTPACKETQ_LEN;
		if (x.outpacketq[k].len > 0 && x.outpacketq[k].len <= (int)sizeof x.outpacketq[k].data) out.push_back(B(x.outpacketq[k].data, x.outpacketq[k].len));
	}
}

Bytes peek_inpacket(int u)
{
	if (!users || u < 0 || u >= (int)usercount) return Bytes();
	const struct tun_user &x = users[u];
	if (x.inpacket.len <= 0 || x.inpacket.len > (int)sizeof x.inpacket.data) return Bytes();
	return B(x.inpacket.data, x.inpacket.len);
}

uint64_t peek_secdigest(int u)
{
	UserView v;
	if (!peek_user(u, v)) return 0;
	uint64_t h = 1469598103934665603ull;
	auto mix = [&](uint64_t x) { h = fnv1a(&x, 8, h); };
	mix(v.active); mix(v.authenticated); mix(v.authenticated_raw); mix(v.options_locked); mix(v.seed);
	mix(v.host.fam); h = fnv1a(v.host.a, 16, h);
	mix(v.conn); mix(v.lazy); mix(v.fragsize); mix((uint8_t)v.downenc); h = fnv1a(v.encoder.data(), v.encoder.size(), h);
	return h;
}

uint64_t peek_fulldigest(int u)
{
	UserView v;
	if (!peek_user(u, v)) return 0;
	uint64_t h = peek_secdigest(u);
	auto mix = [&](uint64_t x) { h = fnv1a(&x, 8, h); };
	mix(v.in.len); mix(v.in.offset); mix(v.in.seqno); mix(v.in.fragment);
	mix(v.out.len); mix(v.out.offset); mix(v.out.seqno); mix(v.out.fragment);
	mix(v.outq_filled);
	return h;
}
