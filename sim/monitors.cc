// Oracles shared by the tunnel scenarios: C01 integrity, C02 delivery/recovery,
// C10 well-formedness, C14 query/answer ledger, reach probes.
#include "scen.h"
#include <stdio.h>
#include <algorithm>
#include <arpa/inet.h>

static bool is_raw(const Bytes &b) { return b.size() >= 4 && b[0] == 0x10 && b[1] == 0xd1 && b[2] == 0x9e; }
static std::string lower(std::string s) { for (auto &c : s) c = (char)tolower((unsigned char)c); return s; }
static uint64_t pkt_serial(const Bytes &p) { if (p.size() < 36) return 0; uint64_t s = 0; for (int i = 0; i < 8; i++) s = (s << 8) | p[24 + i]; return s; }

// ================================================================== C01
// Every tun write must be byte-identical to a packet read earlier from a
// different program's tun device.  Drops and repeats are allowed.
struct C01Integrity : Monitor {
	World *w;
	std::map<Bytes, std::vector<Offered>> offered;
	C01Integrity(World *w) : w(w) {}
	void on_tun_read(Task &t, const Bytes &p) override
	{
		offered[p].push_back(Offered{t.id, w->S.now, pkt_serial(p)});
		w->probes["c01.offered"]++;
		if (p.size() < 24) w->probes["c01.offered.tiny"]++;
		if (p.size() > 2000) w->probes["c01.offered.huge"]++;
	}
	void on_tun_write(Task &t, const Bytes &p) override
	{
		w->probes["c01.written"]++;
		auto it = offered.find(p);
		bool ok = false;
		// frames shorter than tun header + IPv4 header carry no destination: where the server sends
		// them is undefined, so only byte identity is demanded of them, not the direction
		if (it != offered.end()) for (auto &o : it->second) if (o.where != t.id || p.size() < 24) ok = true;
		if (ok) return;
		char d[200];
		snprintf(d, sizeof d, "%s wrote %zu bytes to tun that no peer offered%s: %s", t.name.c_str(), p.size(),
			 it != offered.end() ? " (only itself)" : "", hexs(p, 40).c_str());
		w->S.violate("C01", it != offered.end() ? "reflected" : "fabricated", d);
	}
};
Monitor *mk_c01_integrity(World *w) { return new C01Integrity(w); }

// ================================================================== C02
// (a) clean path: accepted, fitting packets are delivered exactly once, in order.
// (b) recovery: after the last fault + T, every accepted packet is delivered
//     exactly once, in order, within D; nobody exited.
struct C02Delivery : Monitor {
	World *w;
	bool clean_a, recovery_b;
	struct Acc { Bytes pkt; uint64_t t; bool fits; uint64_t ser; };
	std::vector<Acc> acc_c, acc_s;          // accepted at client / at server
	struct Del { Bytes pkt; uint64_t t; };
	std::vector<Del> del_s, del_c;          // written at server / at client
	Bytes pend_c; bool have_pend = false; uint64_t pend_t = 0;
	uint64_t dropped_c = 0, dropped_s = 0;
	std::string prop = "C02";       // the clean-path oracle is also the stream clause of C11/C16
	C02Delivery(World *w, bool a, bool b, const std::string &pr = "C02") : w(w), clean_a(a), recovery_b(b), prop(pr) {}

	void on_tun_read(Task &t, const Bytes &p) override
	{
		if (w->clients.empty()) return;
		if (clean_a && w->clients.size() != 1) return;
		if (&t == w->clients[0].task) { pend_c = p; have_pend = true; pend_t = w->S.now; return; }
		if (&t != w->srv) return;
		if (p.size() < 24) { dropped_s++; return; }
		if ((p[4] >> 4) != 4) { dropped_s++; w->probes["c02.srv.not_ipv4_not_routed"]++; return; }    // only IPv4 packets have a tunnel address as destination
		uint32_t dst_net; memcpy(&dst_net, &p[20], 4);
		if (ntohl(dst_net) != w->clients[0].tun_ip_h) return;    // only the watched client's downstream
		int n = peek_nusers();
		for (int u = 0; u < n; u++) {
			UserView v;
			if (!peek_user(u, v) || v.tun_ip_net != dst_net) continue;
			bool live = v.active && v.authenticated && !v.disabled && v.last_pkt + 60 > (int64_t)w->S.time_s();
			if (!live) break;
			Bytes z = z_compress(p);
			// (rawlate runs lose every raw frame of the server by construction: a packet that goes out while a late raw login has the
			// session in raw mode for a moment is lost to the fault, not to anything the property is about)
			if (v.conn == 0) { acc_s.push_back({p, w->S.now, !w->S.faults.rawlate, pkt_serial(p)}); w->probes[w->S.faults.rawlate ? "c02.srv.accept.raw_lost_to_fault" : "c02.srv.accept.raw"]++; return; }
			bool room = v.out.len == 0 || v.outq_filled < 4;
			if (!room) { dropped_s++; w->probes["c02.srv.queue_full"]++; return; }
			bool fits = v.fragsize > 0 && (z.size() + v.fragsize - 1) / v.fragsize <= 16 && z.size() <= 65536;
			acc_s.push_back({p, w->S.now, fits, pkt_serial(p)});
			w->probes[fits ? "c02.srv.accept" : "c02.srv.accept.nofit"]++;
			return;
		}
		dropped_s++;
	}
	void on_send(const Dgram &d, Sock *s) override
	{
		if (s && !w->clients.empty() && s->owner == w->clients[0].task && d.dst.port == 53 && d.data.size() >= 2 && !is_raw(d.data)) { cli_sent_ids.push_back((uint16_t)((d.data[0] << 8) | d.data[1])); if (cli_sent_ids.size() > 64) cli_sent_ids.pop_front(); }
		if (!have_pend || !s || w->clients.empty() || s->owner != w->clients[0].task) return;
		have_pend = false;
		bool fits = true;
		if (!is_raw(d.data)) {
			DnsMsg m; UpQuery u;
			if (dns_parse_strict(d.data, m).empty() && !m.qd.empty() && decode_upquery(m.qd[0].name.dotted(), w->domain, u) && u.cmd == 'd') {
				if (!u.last) {
					UserView v; int bits = 5;
					if (peek_user(u.userid, v)) { int c = codec_from_name(v.encoder); if (c) bits = codec_bits(c); }
					size_t cap = u.enc_payload.size() * bits / 8;
					size_t z = z_compress(pend_c).size();
					fits = cap > 0 && (z + cap - 1) / cap <= 16;
				}
			}
		} else {
			fits = z_compress(pend_c).size() <= 4096 - 4;   // raw frames are cut at the 4 KB send buffer
		}
		acc_c.push_back({pend_c, pend_t, fits, pkt_serial(pend_c)});
		w->probes[fits ? "c02.cli.accept" : "c02.cli.accept.nofit"]++;
	}
	void on_block(Task &t) override
	{
		if (have_pend && !w->clients.empty() && &t == w->clients[0].task) { have_pend = false; dropped_c++; w->probes["c02.cli.drained"]++; }
	}
	// how many queries back is the id under which a data-carrying answer reaches the client?  (the client drops answers to
	// anything but its last three queries; the server sends one-fragment packets once)
	std::deque<uint16_t> cli_sent_ids;
	int nonrecent_data_answers = 0;
	void on_deliver(const Dgram &d, Sock *s) override
	{
		if (!s || !s->owner || w->clients.empty() || s->owner != w->clients[0].task || d.src.port != 53 || is_raw(d.data) || d.data.size() < 12) return;
		DnsMsg m; Bytes pl;
		if (!dns_parse_strict(d.data, m).empty() || !answer_payload(m, pl) || pl.size() <= 2 || !(pl[0] & 0x80)) return;
		int age = -1;
		for (size_t i = 0; i < cli_sent_ids.size(); i++) if (cli_sent_ids[cli_sent_ids.size() - 1 - i] == m.id) { age = (int)i; break; }
		if (age < 0 || age >= 16) { nonrecent_data_answers++; w->probes["c02.data_answer_under_old_id"]++; }
		w->probes["c02.data_answer_age." + std::string(age < 0 ? "gone" : age >= 16 ? "16+" : age >= 8 ? "8-15" : age >= 3 ? "3-7" : "0-2")]++;
	}
	void on_tun_write(Task &t, const Bytes &p) override
	{
		if (&t == w->srv) del_s.push_back({p, w->S.now});
		else if (!w->clients.empty() && &t == w->clients[0].task) del_c.push_back({p, w->S.now});
	}

	// runs of the hs job in which every reply to the downstream codec switch ('o') was held back for 6-20 s while the client had a
	// codec forced with -O: an open known finding (known_findings.json) has its own clause, so that any other loss stays a new violation
	std::string lost_clause() const
	{
		const J &f = w->cfg["faults"];
		bool held_o = f.k == J::OBJ && f.gets("hold_cmd") == "o" && w->cfg.getb("hs");
		bool forced = w->cfg["clients"].k == J::ARR && !w->cfg["clients"].a.empty() && !w->cfg["clients"].a[0].gets("downenc").empty();
		return held_o && forced ? "recover.lost.held_o_forced_O" : "recover.lost";
	}
	void cmp_clean(const char *dir, std::vector<Acc> &acc, std::vector<Del> &del)
	{
		// Packets accepted up to D before the end of the run must have been delivered: the
		// delivered sequence (non-fitting accepted packets removed) must START with exactly the
		// fitting packets accepted before end-D, in order, each once; what follows may only be
		// later-accepted packets in order, each at most once.
		const uint64_t D = 40ull * 1000000;
		uint64_t end = w->S.now;
		std::set<Bytes> nofit;
		for (auto &a : acc) if (!a.fits) nofit.insert(a.pkt);
		std::vector<const Bytes *> all, got;
		size_t must = 0;
		for (auto &a : acc) if (a.fits) { all.push_back(&a.pkt); if (a.t + D <= end) must = all.size(); }
		std::set<Bytes> seen_once;
		for (auto &d : del) if (!nofit.count(d.pkt)) {
			// under re-delivery faults (C16) a re-answered query may make the receiver write a packet again: repeats are
			// C01-legal and not what C16 is about; loss and reordering still are
			// (downstream only: the server writing an upstream packet twice is exactly what C16 forbids)
			if (prop != "C02" && dir[0] == 's' && !seen_once.insert(d.pkt).second) {
				w->probes["c16.repeat_writes"]++;
				// ... except that under C16 itself a second write of a downstream packet IS the stream rewound at its receiving end by
				// nothing but a re-delivered query (the answer replayed from the cache reaches the client again): since the client
				// remembers that it has passed a packet on (fix for findings/r5/C16-finding2) that must not happen any more
				if (prop == "C16") { char b[200]; snprintf(b, sizeof b, "%s: the packet ser=%llu was written to the receiver's tun a second time", dir, (unsigned long long)pkt_serial(d.pkt)); w->S.violate(prop, "stream.rewound.receiver", b); return; }
				continue;
			}
			got.push_back(&d.pkt);
		}
		w->probes[std::string("c02a.must.") + dir] = (int64_t)must;
		if (prop != "C02" && ((dir[0] == 's' && w->probes["c16.client_discarded_nonrecent"] > 0) || (dir[0] == 'c' && w->probes["c16.client_resend_limit_reached"] > 0))) {
			// The client legitimately discards answers whose id is not among its last three queries (client.c, "non-recent stuff");
			// duplicate answers caused by re-delivered queries can push a data-carrying answer out of that window. That loss is the
			// client's reaction to duplication, not the server processing a query twice: only order is demanded in such runs.
			size_t k = 0;
			for (auto *g : got) { while (k < all.size() && *all[k] != *g) k++; if (k == all.size()) { w->S.violate(prop, "clean.order", std::string(dir) + ": delivered packets are not a subsequence of the accepted ones"); return; } k++; }
			w->probes["c16.down_loss_excused_runs"]++;
			return;
		}
		size_t n = std::min(all.size(), got.size());
		for (size_t i = 0; i < n; i++) if (*all[i] != *got[i]) {
			char b[220]; snprintf(b, sizeof b, "%s: position %zu expected ser=%llu got ser=%llu (accepted %zu, delivered %zu)", dir, i,
					      (unsigned long long)pkt_serial(*all[i]), (unsigned long long)pkt_serial(*got[i]), all.size(), got.size());
			bool dup = false; for (size_t j = 0; j < i; j++) if (*got[j] == *got[i]) dup = true;
			w->S.violate(prop, dup ? "clean.duplicate" : "clean.order_or_loss", b);
			return;
		}
		if (got.size() > all.size()) {
			char b[200]; snprintf(b, sizeof b, "%s: accepted %zu fitting packets, delivered %zu; first extra ser=%llu", dir, all.size(), got.size(), (unsigned long long)pkt_serial(*got[n]));
			w->S.violate(prop, "clean.extra", b);
		} else if (got.size() < must) {
			char b[200]; snprintf(b, sizeof b, "%s: %zu fitting packets accepted more than 40 s before the end, only %zu delivered; first missing ser=%llu", dir, must, got.size(), (unsigned long long)pkt_serial(*all[n]));
			w->S.violate(prop, "clean.lost", b);
		}
	}

	void cmp_recovery(const char *dir, std::vector<Acc> &acc, std::vector<Del> &del, uint64_t Tstart, uint64_t Tend)
	{
		const uint64_t D = 20ull * 1000000;
		size_t n_after = 0;
		uint64_t last_idx_t = 0;
		std::vector<const Acc *> want;
		for (auto &a : acc) if (a.t >= Tstart && a.t + D <= Tend && a.fits) want.push_back(&a);
		n_after = want.size();
		w->probes[std::string("c02b.accepted_after_T.") + dir] = (int64_t)n_after;
		if (n_after < 3) {
			size_t any = 0;
			for (auto &a : acc) if (a.t >= Tstart && a.t + D <= Tend) any++;
			if (any >= 3) { w->probes["c02b.inconclusive_nofit"]++; return; }   // accepted but beyond 16 fragments: scenario precondition, not a wedge
			w->S.violate("C02", "recover.no_progress", std::string(dir) + ": fewer than 3 packets accepted after the recovery bound although traffic was offered every period");
			return;
		}
		size_t di = 0;
		for (auto *a : want) {
			// find its deliveries
			int cnt = 0; uint64_t tdel = 0; size_t idx = 0;
			for (size_t j = 0; j < del.size(); j++) if (del[j].pkt == a->pkt) { if (!cnt) { tdel = del[j].t; idx = j; } cnt++; }
			char b[200];
			if (cnt == 0) { snprintf(b, sizeof b, "%s: ser=%llu accepted at %.3fs never delivered", dir, (unsigned long long)a->ser, a->t / 1e6); w->S.violate("C02", lost_clause(), b); return; }
			if (cnt > 1) { snprintf(b, sizeof b, "%s: ser=%llu delivered %d times", dir, (unsigned long long)a->ser, cnt); w->S.violate("C02", "recover.duplicate", b); return; }
			if (tdel > a->t + D) { snprintf(b, sizeof b, "%s: ser=%llu delivered after %.1fs", dir, (unsigned long long)a->ser, (tdel - a->t) / 1e6); w->S.violate("C02", "recover.late", b); return; }
			if (di && idx < last_idx_t) { snprintf(b, sizeof b, "%s: ser=%llu delivered out of order", dir, (unsigned long long)a->ser); w->S.violate("C02", "recover.order", b); return; }
			last_idx_t = idx; di++;
		}
	}

	void on_end() override
	{
		if (w->clients.empty() || !w->all_in_tunnel) return;
		if (clean_a && w->clients.size() != 1) return;
		w->probes["c02.acc_c"] = (int64_t)acc_c.size(); w->probes["c02.acc_s"] = (int64_t)acc_s.size();
		w->probes["c02.del_s"] = (int64_t)del_s.size(); w->probes["c02.del_c"] = (int64_t)del_c.size();
		if (w->S.capped) return;
		if (clean_a) {
			for (auto &t : w->S.tasks) if (t->state == T_EXITED) { w->S.violate(prop, "clean.exit", t->name + " exited on a clean path"); return; }
			cmp_clean("client->server", acc_c, del_s);
			cmp_clean("server->client", acc_s, del_c);
		}
		if (recovery_b) {
			uint64_t tf = w->T0 + (uint64_t)w->cfg["faults"].geti("t1_us");
			if (w->cfg["faults"].gets("ref", "abs") == "abs") tf = std::max<uint64_t>(w->T0, (uint64_t)w->cfg["faults"].geti("t1_us"));   // faults during the handshake (C02 extended scope)
			tf += (uint64_t)w->cfg["faults"].geti("settle_us");      // datagrams held back by up to this long are part of the trouble
			uint64_t Tstart = tf + 60ull * 1000000;
			for (auto &t : w->S.tasks) if (t->state == T_EXITED && (t.get() == w->srv || t.get() == w->clients[0].task)) {
				char b[160]; snprintf(b, sizeof b, "%s exited at %.1fs (faults ended at %.1fs)", t->name.c_str(), t->t_exit / 1e6, tf / 1e6);
				w->S.violate("C02", "recover.exit", b); return;
			}
			cmp_recovery("client->server", acc_c, del_s, Tstart, w->S.now);
			cmp_recovery("server->client", acc_s, del_c, Tstart, w->S.now);
		}
	}
};
Monitor *mk_c02_delivery(World *w, bool a, bool b, const std::string &prop) { return new C02Delivery(w, a, b, prop); }

// ================================================================== C10 + C14
// Strict well-formedness of everything the real programs emit in DNS mode, and a
// ledger matching each server answer to a distinct earlier query.
struct Ledger : Monitor {
	World *w;
	bool check_held;
	struct Q { uint16_t id; std::string name; uint16_t type; bool strict; bool plain_labels; uint64_t t; bool pingdata; };
	std::map<std::string, std::vector<Q>> pend;     // key: asker address
	std::set<uint64_t> from_loopback;               // hashes of datagrams received from the local DNS
	Ledger(World *w, bool h) : w(w), check_held(h) {}

	static bool plain(const DnsName &n) { for (auto &l : n.labels) for (uint8_t c : l) if (c == '.' || c == 0) return false; return true; }

	void on_recv(Task &t, const Dgram &d) override
	{
		if (&t != w->srv) return;
		if (d.src.fam == AF_INET && d.src.a[0] == 127) { from_loopback.insert(fnv1a(d.data.data(), d.data.size())); return; }
		if (is_raw(d.data) || d.data.size() < 12) return;
		if (d.data[2] & 0x80) return;   // a response: iodined ignores it
		Q q; q.id = (d.data[0] << 8) | d.data[1]; q.t = w->S.now; q.strict = false; q.plain_labels = false; q.type = 0; q.pingdata = false;
		DnsMsg m;
		if (dns_parse_strict(d.data, m).empty() && m.qd.size() >= 1) {
			q.strict = true; q.name = m.qd[0].name.dotted(); q.type = m.qd[0].type; q.plain_labels = plain(m.qd[0].name);
			std::string data;
			if (strip_domain(q.name, w->domain, data) && !data.empty()) {
				char c = (char)tolower((unsigned char)data[0]);
				q.pingdata = c == 'p' || (c >= '0' && c <= '9') || (c >= 'a' && c <= 'f');
			}
		}
		pend[d.src.str()].push_back(q);
		last_q = q; last_src = d.src.str(); have_last = true;
	}
	Q last_q; std::string last_src; bool have_last = false;   // the query the server is working on (answers to NS/A/handshake queries are synchronous)
	void on_send(const Dgram &d, Sock *s) override
	{
		if (!s || !s->owner) return;
		Task *t = s->owner;
		if (is_raw(d.data)) return;
		bool loop_dst = d.dst.fam == AF_INET && d.dst.a[0] == 127;
		if (t == w->srv && !loop_dst && from_loopback.count(fnv1a(d.data.data(), d.data.size()))) {
			// verbatim relay of a local DNS reply (-b forwarding): neither content nor multiplicity is iodined's - a local
			// server that answers twice, or with an id nobody asked, is relayed per C20's rules; not judged under C14
			consume(d, nullptr, false, true);
			return;
		}
		DnsMsg m;
		std::string e = dns_parse_strict(d.data, m);
		// C10 quantifies over well-formed queries whose labels contain no '.' or NUL: what the server
		// emits because of a query outside that domain (an answer or a forwarded copy) is not judged
		if (t == w->srv && !trigger_is_plain(d, loop_dst)) {
			w->probes["c10.skipped_nonplain_trigger"]++;
			if (!loop_dst) consume(d, e.empty() ? &m : nullptr, true);
			return;
		}
		w->probes["c10.checked"]++;
		if (!e.empty()) {
			w->S.violate("C10", "malformed", t->name + " emitted a malformed DNS message: " + e + " [" + hexs(d.data, 48) + "]");
			if (t == w->srv && !loop_dst) consume(d, nullptr);
			return;
		}
		if (t != w->srv) {
			// client query
			if (m.qr) w->S.violate("C10", "client.qr", t->name + " emitted a response");
			if (m.qd.size() != 1 || !m.an.empty() || !m.ns.empty()) w->S.violate("C10", "client.sections", t->name + " query with unexpected section counts");
			if (m.ar.size() > 1 || (m.ar.size() == 1 && (m.ar[0].type != QT_OPT || !m.ar[0].name.labels.empty()))) w->S.violate("C10", "client.opt", t->name + " query with a bad additional section");
			if (m.qd.size() == 1) {
				std::string data;
				if (!strip_domain(m.qd[0].name.dotted(), w->domain, data)) w->S.violate("C10", "client.domain", t->name + " query outside the tunnel domain: " + m.qd[0].name.dotted());
			}
			return;
		}
		if (loop_dst) { if (m.qr) w->S.violate("C10", "forward.qr", "forwarded query has QR set"); return; }
		if (!m.qr) { w->S.violate("C10", "server.qr", "server emitted a non-response to " + d.dst.str()); return; }
		if (m.qd.size() != 1) w->S.violate("C10", "server.sections", "answer without exactly one question");
		consume(d, &m);
	}
	bool trigger_is_plain(const Dgram &d, bool loop_dst)
	{
		uint16_t id = (d.data.size() >= 2) ? (uint16_t)((d.data[0] << 8) | d.data[1]) : 0;
		if (loop_dst) {
			// forwarded query: the trigger is the most recent query with this id from any asker
			const Q *best = nullptr;
			for (auto &p : pend) for (auto &q : p.second) if (q.id == id && (!best || q.t >= best->t)) best = &q;
			return best && best->strict && best->plain_labels;
		}
		if (have_last && last_src == d.dst.str() && last_q.id == id) return last_q.strict && last_q.plain_labels;
		auto it = pend.find(d.dst.str());
		if (it == pend.end()) return true;     // unsolicited: let consume() report it
		bool any = false, plainq = false;
		for (auto &q : it->second) if (q.id == id) { any = true; if (q.strict && q.plain_labels) plainq = true; }
		return !any || plainq;
	}
	void consume(const Dgram &d, const DnsMsg *m, bool quiet_echo = false, bool relay = false)
	{
		uint16_t id = (d.data.size() >= 2) ? (uint16_t)((d.data[0] << 8) | d.data[1]) : 0;
		auto &v = pend[d.dst.str()];
		int found = -1, found_exact = -1;
		for (size_t i = 0; i < v.size(); i++) if (v[i].id == id) {
			if (found < 0) found = (int)i;
			if (m && !m->qd.empty() && v[i].strict && v[i].name == m->qd[0].name.dotted() && v[i].type == m->qd[0].type) { found_exact = (int)i; break; }
		}
		if (found < 0 && relay) { w->probes["c14.relay_without_pending_query"]++; return; }
		if (found < 0) {
			char b[200]; snprintf(b, sizeof b, "answer id=%u to %s matches no unanswered query from that address", id, d.dst.str().c_str());
			w->S.violate("C14", "unsolicited", b);
			return;
		}
		int use = found_exact >= 0 ? found_exact : found;
		if (!quiet_echo && m && !m->qd.empty() && v[use].strict && v[use].plain_labels && found_exact < 0) {
			w->S.violate("C10", "echo", "answer id=" + std::to_string(id) + " carries question '" + m->qd[0].name.dotted() + "'/" + std::to_string(m->qd[0].type) +
				     " but the query was '" + v[use].name + "'/" + std::to_string(v[use].type));
			// C14 asks for a received query "from that address with that id and question": none of the unanswered ones has it
			w->S.violate("C14", "unsolicited.question", "answer id=" + std::to_string(id) + " to " + d.dst.str() + " carries question '" + m->qd[0].name.dotted() +
				     "', which no unanswered query with that id from that address asked");
		}
		if (m && !quiet_echo && !relay && v[use].strict && v[use].plain_labels && found_exact >= 0) check_ns_a(d, *m, v[use]);
		v.erase(v.begin() + use);
		w->probes["c14.answers"]++;
	}
	// C10, last sentence: NS queries under the tunnel domain are answered with ns.<matched domain> (+ an A record for it when an
	// IPv4 address is known), A queries for ns./www. with one address record
	void check_ns_a(const Dgram &d, const DnsMsg &m, const Q &q)
	{
		size_t dl = 0;
		if (!tunnel_domain_match(q.name, w->srv_domain, dl)) return;
		std::string matched = q.name.substr(dl), data = q.name.substr(0, dl);
		auto low = [](std::string x) { for (auto &c : x) c = (char)tolower((unsigned char)c); return x; };
		if (q.type == QT_NS) {
			w->probes["c10.ns_answers"]++;
			if (m.an.size() != 1 || m.an[0].type != QT_NS || low(m.an[0].rname.dotted()) != "ns." + low(matched)) {
				w->S.violate("C10", "ns.content", "NS query for '" + q.name + "' answered with " + (m.an.empty() ? std::string("no record") : "'" + m.an[0].rname.dotted() + "'") + " instead of ns." + matched);
				return;
			}
			for (auto &r : m.ar) if (r.type == QT_A) {
				if (low(r.name.dotted()) != "ns." + low(matched) || r.rdata.size() != 4) w->S.violate("C10", "ns.additional", "additional record of the NS answer is not an address record for ns." + matched);
				w->probes["c10.ns_with_address"]++;
			}
			if (d.dst.fam == AF_INET && m.ar.empty() && !w->cfg.has("ns_ip")) w->S.violate("C10", "ns.no_address", "NS answer over IPv4 carries no address record for the name server");
		} else if (q.type == QT_A && (low(data) == "ns." || low(data) == "www.")) {
			w->probes["c10.a_answers"]++;
			if (m.an.size() != 1 || m.an[0].type != QT_A || m.an[0].rdata.size() != 4) w->S.violate("C10", "a.content", "A query for '" + q.name + "' was not answered with exactly one 4-byte address record");
		}
	}
	void on_block(Task &t) override
	{
		if (!check_held || &t != w->srv) return;
		for (auto &p : pend) {
			int held = 0;
			for (auto &q : p.second) if (q.pingdata && q.id != 0) held++;
			if (held >= 2) w->probes["c14.held2"]++;
			if (held > 2) {
				char b[160]; snprintf(b, sizeof b, "%d ping/data queries from %s unanswered after a server step", held, p.first.c_str());
				w->S.violate("C14", "held>2", b);
			}
		}
	}
};
Monitor *mk_c14_ledger(World *w, bool h) { return new Ledger(w, h); }
Monitor *mk_c10_wellformed(World *) { return nullptr; }   // folded into the ledger (shares the query table)

// ================================================================== probes
struct Probes : Monitor {
	World *w;
	Probes(World *w) : w(w)
	{
		Probes *self = this;
		w->result_hooks.push_back([self](J &r) {
			J a = J::arr(); for (auto x : self->states) a.push(J((long long)x)); r.set("abs_states", a);
			J b = J::arr(); for (auto x : self->trans) b.push(J((long long)x)); r.set("abs_trans", b);
		});
	}
	int last_out_seq = -1, last_in_seq = -1;
	// abstract per-session protocol state of the server after each of its steps (reach measure):
	// lazy, query held, realsoon held, duplicate remembered, outpacket active, queue fill, resend count, inpacket mid-assembly,
	// out fragment class, connection type
	std::set<uint32_t> states; std::set<uint64_t> trans; std::map<int, uint32_t> prev;
	void abstract(int u, const UserView &v)
	{
		uint32_t fragc = v.out.fragment == 0 ? 0 : v.out.fragment == 1 ? 1 : v.out.fragment < 15 ? 2 : 3;
		uint32_t st = (v.lazy ? 1u : 0) | (v.q_id ? 2u : 0) | (v.qsrs_id ? 4u : 0) | ((v.q_id2 || v.qsrs_id2) ? 8u : 0) | (v.out.len > 0 ? 16u : 0) |
			((uint32_t)std::min(v.outq_filled, 4) << 5) | ((uint32_t)std::min(v.outfragresent, 6) << 8) | (v.in.len > 0 ? 2048u : 0) | (fragc << 12) | (v.conn ? 16384u : 0) |
			(v.authenticated ? 32768u : 0) | (v.authenticated_raw ? 65536u : 0);
		states.insert(st);
		auto it = prev.find(u);
		if (it != prev.end() && it->second != st && trans.size() < 4000) trans.insert(((uint64_t)it->second << 20) | st);
		prev[u] = st;
	}
	void on_block(Task &t) override
	{
		if (&t != w->srv) return;
		int n = peek_nusers();
		for (int u = 0; u < n; u++) {
			UserView v;
			if (!peek_user(u, v) || !v.active) continue;
			abstract(u, v);
			if (v.q_id && v.qsrs_id) w->probes["srv.both_slots_held"]++;
			if (v.q_id2 || v.qsrs_id2) w->probes["srv.id2_remembered"]++;
			if (v.outq_filled >= 4) w->probes["srv.outq_full"]++;
			if (v.outfragresent >= 5) w->probes["srv.resent5"]++;
			if (v.out.fragment >= 15) w->probes["srv.frag15"]++;
			if (v.in.fragment >= 15) w->probes["srv.infrag15"]++;
			if (u == 0) {
				if (last_out_seq == 7 && v.out.seqno == 0) w->probes["srv.outseq_wrap"]++;
				if (last_in_seq == 7 && v.in.seqno == 0) w->probes["srv.inseq_wrap"]++;
				last_out_seq = v.out.seqno; last_in_seq = v.in.seqno;
			}
			if (v.conn == 0) w->probes["srv.raw_session"]++;
			if (v.lazy) w->probes["srv.lazy_on"]++;
		}
	}
	void on_send(const Dgram &d, Sock *s) override
	{
		if (!s || s->owner != w->srv || is_raw(d.data)) return;
		DnsMsg m; Bytes p;
		if (!dns_parse_strict(d.data, m).empty() || !answer_payload(m, p)) return;
		if (p.size() == 1 && p[0] == 'x') w->probes["srv.qmem_marker"]++;
		if (p.size() == 5 && !memcmp(p.data(), "BADIP", 5)) w->probes["srv.badip"]++;
	}
};
Monitor *mk_probes(World *w) { return new Probes(w); }
