// Scenario "forward" (C20): real iodined -b <port>; asker hosts send queries for names outside
// (and near) the tunnel domain; a model local DNS on 127.0.0.1:<port> answers late, out of
// order, twice, not at all, and with ids nobody asked for.  Oracle: routing ledger by id.
#include "scen.h"
#include "gen.h"
#include <algorithm>

static std::string lc(std::string s) { for (auto &c : s) c = (char)tolower((unsigned char)c); return s; }

static bool under_tunnel_domain(const std::string &qname, const std::string &srv_domain) { size_t n; return tunnel_domain_match(qname, srv_domain, n); }

struct ForwardWorld {
	World *w;
	int bind_port = 0;
	std::map<std::string, Sock *> askers;          // name -> socket (v4) / name+"6" -> v6 socket
	Sock *local = nullptr;                         // the model local DNS
	Addr srv_bind_addr; bool have_bind_addr = false;
	uint64_t nfw = 0;
	uint64_t reply_serial = 0;
};

struct C20Monitor : Monitor {
	World *w; ForwardWorld *fw;
	struct Exp { uint16_t id; std::string name; uint16_t type; std::string asker; Addr asker_addr; bool done = false; std::vector<Bytes> labels; bool odd = false; };
	// a label with a '.' or a 0 octet inside is legal DNS (RFC 2181 section 11; DNS-SD instance names) but cannot be told from two labels /
	// the end of the name once the name is held as a dotted C string
	static bool odd_labels(const std::vector<Bytes> &ls) { for (auto &l : ls) for (uint8_t c : l) if (c == '.' || c == 0) return true; return false; }
	static std::string safe_dotted(const std::vector<Bytes> &ls) { std::string o; for (size_t i = 0; i < ls.size(); i++) { if (i) o += '.'; for (uint8_t c : ls[i]) o += (c == '.' || c == 0) ? '?' : (char)c; } return o; }
	struct Ring { uint16_t id; std::string asker; bool answered = false; bool ambig = false; };
	std::deque<Ring> ring;                          // the 16 most recently forwarded queries
	std::vector<Exp> step_expect, step_odd_inside;
	struct Rep { Bytes data; uint16_t id; int relayed = 0; };
	std::vector<Rep> step_replies;
	std::set<uint64_t> known_reply_hashes;          // every datagram the local DNS ever emitted
	C20Monitor(World *w, ForwardWorld *f) : w(w), fw(f) {}

	static bool loop(const Addr &a) { return a.fam == AF_INET && a.a[0] == 127; }

	void on_send(const Dgram &d, Sock *s) override
	{
		if (s && s == fw->local) { known_reply_hashes.insert(fnv1a(d.data.data(), d.data.size())); return; }
		if (!s || s->owner != w->srv) return;
		if (loop(d.dst)) {
			// a forwarded copy
			w->probes["c20.forwarded"]++;
			if (d.dst.port != fw->bind_port) { w->S.violate("C20", "forward.port", "forwarded to " + d.dst.str() + " instead of the -b port"); return; }
			DnsMsg m;
			std::string e = dns_parse_strict(d.data, m);
			if (!e.empty() || m.qd.size() != 1) { w->S.violate("C20", "forward.malformed", "forwarded query is not a well-formed single-question message: " + e); return; }
			for (auto &x : step_expect) if (!x.done && x.id == m.id && x.labels == m.qd[0].name.labels && x.type == m.qd[0].type) {
				x.done = true;
				ring.push_back({m.id, x.asker, false}); if (ring.size() > 16) ring.pop_front();
				return;
			}
			char b[300];
			for (auto &x : step_expect) if (!x.done && x.odd && x.id == m.id && x.type == m.qd[0].type) {
				// relayed, but under another name
				x.done = true;
				ring.push_back({m.id, x.asker, false}); if (ring.size() > 16) ring.pop_front();
				snprintf(b, sizeof b, "query id=%u for a name with a '.' or 0 octet inside a label ('%s') was relayed as '%s'", m.id, safe_dotted(x.labels).substr(0, 100).c_str(), safe_dotted(m.qd[0].name.labels).substr(0, 100).c_str());
				w->S.violate("C20", "forward.oddlabel.altered", b);
				return;
			}
			for (auto &y : step_odd_inside) if (!y.done && y.id == m.id && y.type == m.qd[0].type) {
				y.done = true; w->probes["c20.oddlabel_inside_relayed"]++;
				ring.push_back({m.id, y.asker, false}); if (ring.size() > 16) ring.pop_front();
				return;
			}
			snprintf(b, sizeof b, "forwarded query id=%u name='%s' type=%u matches no non-tunnel query received in this step", m.id, m.qd[0].name.dotted().substr(0, 120).c_str(), m.qd[0].type);
			w->S.violate("C20", "forward.altered_or_unexpected", b);
			return;
		}
		// to an asker: is it a relayed local reply?
		uint64_t h = fnv1a(d.data.data(), d.data.size());
		if (!known_reply_hashes.count(h)) return;       // iodined's own answer (tunnel/NS/A logic): not a relay
		uint16_t id = d.data.size() >= 2 ? (uint16_t)((d.data[0] << 8) | d.data[1]) : 0;
		w->probes["c20.relayed"]++;
		if (d.data.size() < 12) {
			// shorter than a DNS header: it bears no id (its first two octets, if any, are not an id field of a message), so it is
			// nobody's reply
			w->probes["c20.runt_relayed"]++;
			bool asked = false; for (auto &r : ring) if (d.data.size() >= 2 && r.id == id && r.asker == d.dst.str()) asked = true;
			if (!asked) { char b2[200]; snprintf(b2, sizeof b2, "a %zu-octet datagram from the local DNS port (first octets %02x %02x) was sent to %s, who asked nothing with such an id", d.data.size(), d.data[0], d.data.size() > 1 ? d.data[1] : 0, d.dst.str().c_str()); w->S.violate("C20", "relay.runt", b2); }
			for (auto &r : step_replies) if (r.data == d.data) { r.relayed++; break; }
			return;
		}
		std::vector<std::string> cand;
		std::vector<Ring *> open;          // remembered queries with this id that have not had a reply yet
		for (auto &r : ring) if (r.id == id) { cand.push_back(r.asker); if (!r.answered) open.push_back(&r); }
		char b[300];
		if (cand.empty()) { snprintf(b, sizeof b, "local reply id=%u was sent to %s although none of the 16 most recent forwarded queries has that id", id, d.dst.str().c_str()); w->S.violate("C20", "relay.unknown_id", b); return; }
		if (std::find(cand.begin(), cand.end(), d.dst.str()) == cand.end()) { snprintf(b, sizeof b, "local reply id=%u was sent to %s; it was asked by %s", id, d.dst.str().c_str(), cand[0].c_str()); w->S.violate("C20", "relay.wrong_asker", b); return; }
		// id reuse: when exactly one remembered query with this id is still waiting for its reply, the reply is that one's -
		// not an earlier asker's whose query has been answered already
		if (open.size() == 1 && cand.size() > 1 && open[0]->asker != d.dst.str()) {
			snprintf(b, sizeof b, "local reply id=%u was sent to %s, whose query with that id had been answered already; the one still waiting is %s's", id, d.dst.str().c_str(), open[0]->asker.c_str());
			w->S.violate("C20", "relay.stale_asker", b);
			return;
		}
		if (cand.size() > 1) w->probes["c20.id_reuse_relays"]++;
		if (open.size() > 1) for (auto &r : ring) if (r.id == id) r.ambig = true;     // two waiting queries with one id: which of them a reply belongs to (and which one is left) is not decidable by id
		for (auto &r : ring) if (r.id == id && !r.answered && r.asker == d.dst.str()) { r.answered = true; break; }
		for (auto &r : step_replies) if (r.data == d.data && !r.relayed) { r.relayed++; return; }
		for (auto &r : step_replies) if (r.data == d.data) { r.relayed++; return; }
		snprintf(b, sizeof b, "local reply id=%u relayed to %s in a step that did not receive it", id, d.dst.str().c_str()); w->S.violate("C20", "relay.spurious", b);
	}

	void on_recv(Task &t, const Dgram &d) override
	{
		if (&t != w->srv) return;
		if (loop(d.src)) {
			Rep r; r.data = d.data; r.id = d.data.size() >= 2 ? (uint16_t)((d.data[0] << 8) | d.data[1]) : 0;
			step_replies.push_back(r);
			w->probes["c20.local_replies"]++;
			return;
		}
		DnsMsg m;
		if (!dns_parse_strict(d.data, m).empty() || m.qr || m.qd.size() != 1) return;
		std::string name = m.qd[0].name.dotted();
		bool odd = odd_labels(m.qd[0].name.labels);
		if (odd) { name = safe_dotted(m.qd[0].name.labels); w->probes["c20.asked_oddlabel"]++; }      // membership in the tunnel domain is a matter of labels
		if (under_tunnel_domain(name, w->srv_domain)) {
			w->probes["c20.tunnel_names"]++;
			// label by label this is a tunnel name; whether iodined, reading it as a string, relays it instead is not C20's subject
			if (odd) { Exp y; y.id = m.id; y.type = m.qd[0].type; y.asker = d.src.str(); step_odd_inside.push_back(y); }
			return;
		}
		Exp x; x.id = m.id; x.name = name; x.type = m.qd[0].type; x.asker = d.src.str(); x.asker_addr = d.src; x.labels = m.qd[0].name.labels; x.odd = odd;
		step_expect.push_back(x);
		w->probes["c20.asked"]++;
		if (d.src.fam == AF_INET6) w->probes["c20.asked_v6"]++;
	}

	void on_block(Task &t) override
	{
		if (&t != w->srv) return;
		char b[300];
		for (auto &x : step_expect) if (!x.done) {
			snprintf(b, sizeof b, "query id=%u '%s' type=%u from %s is outside the tunnel domain but was not relayed to 127.0.0.1:%d", x.id, x.name.substr(0, 100).c_str(), x.type, x.asker.c_str(), fw->bind_port);
			w->S.violate("C20", x.odd ? "forward.oddlabel.missing" : x.asker_addr.fam == AF_INET6 ? "forward.missing.v6" : "forward.missing", b);
		}
		for (auto &r : step_replies) {
			if (r.data.size() < 12) { w->probes["c20.runt_received"]++; continue; }      // not a DNS message: nothing is promised for it
			std::vector<std::string> cand;
			for (auto &e : ring) if (e.id == r.id) cand.push_back(e.asker);
			bool open_left = false, amb = false;
			for (auto &e : ring) if (e.id == r.id) { if (!e.answered) open_left = true; if (e.ambig) amb = true; }
			if (amb) { w->probes["c20.reply_id_ambiguous"]++; continue; }
			if (cand.size() == 1 && !open_left && r.relayed == 0) w->probes["c20.duplicate_reply_dropped"]++;     // the query has had its reply; a second copy need not be passed on
			else if (cand.size() == 1) {
				if (r.relayed != 1) { snprintf(b, sizeof b, "local reply id=%u (asked by %s, id unique among the last 16) was relayed %d times", r.id, cand[0].c_str(), r.relayed); w->S.violate("C20", r.relayed ? "relay.repeated" : "relay.missing", b); }
				else w->probes["c20.relay_ok"]++;
			} else if (cand.size() > 1) w->probes["c20.reply_id_ambiguous"]++;
			else w->probes["c20.reply_unknown_id"]++;
		}
		if (ring.size() >= 16) w->probes["c20.ring_wrapped"]++;
		step_expect.clear(); step_replies.clear(); step_odd_inside.clear();
	}
};

// ------------------------------------------------------------------ generation
static std::string gen_outside_name(Rng &r, const std::string &dom)
{
	static const char *al = "abcdefghijklmnopqrstuvwxyz0123456789-ABCDEFGHIJKLMNOPQRSTUVWXYZ";
	auto label = [&](int n) { std::string s; for (int i = 0; i < n; i++) s += al[r.range(0, (i == 0 || i == n - 1) ? 35 : 62)]; return s; };
	std::string n;
	switch (r.range(0, 11)) {
	case 10: return std::string();                                                 // the root name "." (priming queries, . NS / . SOA / . DNSKEY)
	case 11: return label((int)r.range(1, 12));                                    // a single label (a TLD)
	case 0: n = "www.example.org"; break;
	case 1: n = label((int)r.range(1, 63)) + ".net"; break;                       // label lengths up to the legal maximum
	case 2: n = label(63) + "." + label((int)r.range(1, 63)) + ".test"; break;
	case 3: { // near miss: the domain as a suffix without a label boundary
		n = label((int)r.range(1, 10)) + dom; break; }
	case 4: { // near miss: the domain with one more trailing label
		n = dom + "." + label((int)r.range(1, 8)); break; }
	case 5: { // near miss: the domain minus its first label
		size_t dot = dom.find('.'); n = dot == std::string::npos ? label(5) + ".x" : dom.substr(dot + 1); if (n.find('.') == std::string::npos) n = label(4) + "." + n; break; }
	case 6: { // long name close to 253 characters
		n = label(60) + "." + label(61) + "." + label(62) + "." + label((int)r.range(1, 50)) + ".org"; break; }
	default: { int k = (int)r.range(1, 5); for (int i = 0; i < k; i++) n += label((int)r.range(1, 20)) + "."; n += "com"; }
	}
	return n;
}

J gen_forward(uint64_t seed, const J &ov)
{
	Rng r(seed, "forward");
	J plan = J::obj(), cfg = J::obj(), ops = J::arr();
	plan.set("scenario", "forward"); plan.set("seed", (long long)seed);
	std::string dom = gen_domain(r);
	cfg.set("domain", dom);
	bool wildcard = r.chance(0.25);
	if (wildcard) { size_t dot = dom.find('.'); cfg.set("srv_domain", "*" + dom.substr(dot)); }
	cfg.set("password", gen_password(r));
	cfg.set("bind_port", (int)r.range(1024, 65000));
	cfg.set("srv_v6", r.chance(0.4));
	cfg.set("keep_running", true);
	cfg.set("clients", J::arr());
	double T = 10 + r.uniform() * 40;
	cfg.set("tmax_s", (int)T + 8);
	int nask = (int)r.range(1, 6);
	cfg.set("askers", nask);
	// local DNS behaviour
	J l = J::obj();
	l.set("p_drop", r.chance(0.5) ? r.uniform() * 0.3 : 0.0);
	l.set("p_dup", r.chance(0.4) ? r.uniform() * 0.3 : 0.0);
	l.set("max_delay_us", (long long)(r.chance(0.5) ? r.range(100, 20000) : r.range(20000, 4000000)));
	l.set("p_spurious", r.chance(0.6) ? r.uniform() * 0.3 : 0.0);       // extra reply with an id nobody (recently) used
	cfg.set("local", l);
	// id pool: small pools force reuse, big ones keep ids distinct
	int pool = (int)(r.chance(0.5) ? r.range(4, 40) : r.range(200, 60000));
	std::vector<int> ids;
	for (int i = 0; i < pool && i < 400; i++) ids.push_back((int)r.range(1, 65535));
	if (r.chance(0.35)) ids[r.range(0, (int)ids.size() - 1)] = 0;          // DNS id 0 is a legal id like any other
	if (r.chance(0.2)) ids[r.range(0, (int)ids.size() - 1)] = 65535;
	int nq = (int)(r.chance(0.3) ? r.range(1, 20) : r.range(20, 200));
	static const int types[] = {1, 1, 28, 15, 16, 2, 5, 255, 33, 12, 6, 10};
	double t = 0.5;
	for (int i = 0; i < nq; i++) {
		t += r.chance(0.5) ? r.uniform() * 0.005 : r.uniform() * 2 * T / nq;
		if (t > T) t = 0.5 + r.uniform() * (T - 0.5);
		J op = J::obj(); op.set("ref", "abs"); op.set("t", (long long)(t * 1e6)); op.set("op", "ask");
		op.set("who", (int)r.range(0, nask - 1));
		op.set("v6", cfg.getb("srv_v6") && r.chance(0.3));
		op.set("id", ids[r.range(0, (int)ids.size() - 1)]);
		op.set("qtype", types[r.range(0, 11)]);
		if (r.chance(0.12)) {
			// NS queries for names under the domain and A queries for ns./www. (answered by iodined itself, C10)
			std::string d2 = dom; for (auto &c : d2) if (r.chance(0.3)) c = (char)toupper((unsigned char)c);
			switch (r.range(0, 4)) {
			case 0: op.set("name", d2); op.set("qtype", 2); break;
			case 1: op.set("name", std::string("sub") + std::to_string(i) + "." + d2); op.set("qtype", 2); break;
			case 2: op.set("name", std::string((const char *[]){"ns.", "NS.", "nS.", "Ns."}[r.range(0, 3)]) + d2); op.set("qtype", 1); break;
			case 3: op.set("name", std::string((const char *[]){"www.", "wWw.", "WWW.", "Www.", "wwW."}[r.range(0, 4)]) + d2); op.set("qtype", 1); break;
			default: op.set("name", std::string("a.b.c.") + d2); op.set("qtype", 2); break;
			}
		} else if (r.chance(0.12)) {
			// a name under the tunnel domain (must not be forwarded): garbage data part, case variants of the domain
			std::string d2 = dom; for (auto &c : d2) if (r.chance(0.5)) c = (char)toupper((unsigned char)c);
			op.set("name", std::string(r.chance(0.5) ? "zz" : "www2") + "q" + std::to_string(i) + "." + d2);
		} else op.set("name", gen_outside_name(r, dom));
		if (ov.getb("oddlabels") && r.chance(0.25)) {
			// wire-format labels given explicitly: one label with a '.' or a 0 octet inside (DNS-SD instance names such as
			// "Dr.Pepper"._http._tcp.example.org; binary labels) in front of an ordinary outside name, or in front of the parent of the tunnel domain so that
			// the dotted spelling of the name looks like a tunnel name
			std::string hex; auto addl = [&](const std::string &l) { char b[4]; snprintf(b, sizeof b, "%02x", (unsigned)l.size()); hex += b; for (unsigned char c : l) { snprintf(b, sizeof b, "%02x", c); hex += b; } };
			std::string base = gen_outside_name(r, dom);
			size_t dot = dom.find('.');
			int k = (int)r.range(0, 3);
			if (k == 3 && dot != std::string::npos && dot + 1 < dom.size() && dom.substr(dot + 1).find('.') != std::string::npos) { addl("x." + dom.substr(0, dot)); base = dom.substr(dot + 1); }
			else if (k == 2) addl(std::string("a\0b", 3) + (r.chance(0.5) ? "c" : ""));
			else if (k == 1) addl("Dr.Pepper");
			else addl("_svc.x");
			if (k == 2) hex.replace(4, 2, "00");      // the middle octet of "a?b" is a 0 octet
			if (base.empty()) base = "org";
			size_t st = 0; while (st <= base.size()) { size_t e = base.find('.', st); if (e == std::string::npos) e = base.size(); if (e > st) addl(base.substr(st, e - st)); st = e + 1; }
			op.set("labels_hex", hex);
		}
		op.set("edns", r.chance(0.3));
		ops.push(op);
	}
	plan.set("cfg", cfg); plan.set("ops", ops);
	return plan;
}

World *build_forward(const J &plan)
{
	World *w = new World();
	w->plan = plan;
	w->build_common();
	ForwardWorld *fw = new ForwardWorld(); fw->w = w;
	fw->bind_port = (int)w->cfg.geti("bind_port");
	int nask = (int)w->cfg.geti("askers", 1);
	bool v6 = w->cfg.getb("srv_v6");
	for (int i = 0; i < nask; i++) {
		std::string n = "ask" + std::to_string(i);
		std::string ip6 = "fd00::4:" + std::to_string(1 + i);
		int h = w->S.add_host(n, ("10.9.4." + std::to_string(1 + i)).c_str(), v6 ? ip6.c_str() : nullptr);
		fw->askers[n] = w->S.model_socket(h, AF_INET, (uint16_t)(40000 + i), [](const Dgram &) {});
		if (v6) fw->askers[n + "6"] = w->S.model_socket(h, AF_INET6, (uint16_t)(40000 + i), [](const Dgram &) {});
	}
	// model local DNS on the server host's loopback
	const J &l = w->cfg["local"];
	double p_drop = l.getd("p_drop"), p_dup = l.getd("p_dup"), p_sp = l.getd("p_spurious");
	uint64_t maxd = (uint64_t)l.geti("max_delay_us", 1000);
	World *ww = w;
	fw->local = w->S.model_socket(w->srv_host, AF_INET, (uint16_t)fw->bind_port, [ww, fw, p_drop, p_dup, p_sp, maxd](const Dgram &d) {
		Sim &S = ww->S;
		uint64_t k = ++fw->nfw;
		fw->srv_bind_addr = d.src; fw->have_bind_addr = true;
		auto reply = [&](uint16_t id, uint64_t delay, const Bytes &question) {
			// header flags as different local servers set them: recursive (RA), authoritative-only (AA, no RA), referral, REFUSED ...
			static const uint8_t fl[][2] = {{0x81, 0x80}, {0x81, 0x80}, {0x85, 0x00}, {0x80, 0x00}, {0x81, 0x00}, {0x84, 0x05}, {0x81, 0x83}, {0x83, 0x80}, {0x81, 0xa0}};
			uint64_t fk = fw->reply_serial + 1;
			const uint8_t *ff = fl[S.D("ldns.flags", fk) % 9];
			Bytes a; put16(a, id); a.push_back(ff[0]); a.push_back(ff[1]); put16(a, 1); put16(a, 1); put16(a, 0); put16(a, 0);
			a.insert(a.end(), question.begin(), question.end());
			// one TXT answer with a unique marker so that every reply is distinguishable
			a.push_back(0xc0); a.push_back(12); put16(a, 16); put16(a, 1); put32(a, 60);
			char mk[48]; int n = snprintf(mk, sizeof mk, "reply-%llu", (unsigned long long)++fw->reply_serial);
			put16(a, (uint16_t)(n + 1)); a.push_back((uint8_t)n); a.insert(a.end(), mk, mk + n);
			// other legal reply shapes: a bare 12-byte header (FORMERR/REFUSED/NOTIMP without question), and answers well beyond 512
			// bytes (the forwarded query advertised EDNS0)
			uint64_t sk = fw->reply_serial;
			switch (S.D("ldns.shape", sk) % 12) {
			case 0: { a.resize(12); static const uint8_t rc[] = {1, 5, 4, 2}; a[3] = (uint8_t)(0x80 | rc[S.D("ldns.rc", sk) % 4]); a[4] = a[5] = a[6] = a[7] = 0; S.count("fault.localdns.header_only"); break; }
			case 1: case 2: {
				size_t want = (size_t)S.R("ldns.big", sk, 513, S.D("ldns.bigk", sk) % 2 ? 1232 : 4096);
				int extra = 0;
				while (a.size() + 12 + 200 < want) { a.push_back(0xc0); a.push_back(12); put16(a, 16); put16(a, 1); put32(a, 60); put16(a, 201); a.push_back(200); for (int i = 0; i < 200; i++) a.push_back((uint8_t)('a' + (i + extra) % 26)); extra++; }
				if (a.size() < want && want - a.size() > 13) { size_t m2 = want - a.size() - 13; if (m2 > 255) m2 = 255; a.push_back(0xc0); a.push_back(12); put16(a, 16); put16(a, 1); put32(a, 60); put16(a, (uint16_t)(m2 + 1)); a.push_back((uint8_t)m2); for (size_t i = 0; i < m2; i++) a.push_back('z'); extra++; }
				a[6] = (uint8_t)((1 + extra) >> 8); a[7] = (uint8_t)(1 + extra);
				S.count("fault.localdns.large_reply");
				break; }
			case 3:
				// a runt: the first 1-11 octets only (a datagram shorter than a DNS header bears no id; one in four rolls)
				if (S.D("ldns.runt", sk) % 4 == 0) { a.resize((size_t)S.R("ldns.runtlen", sk, 1, 11)); S.count("fault.localdns.runt"); }
				break;
			default: break;
			}
			Addr dst = d.src; Sock *ls = fw->local;
			S.after(delay, [&S, ls, dst, a]() { S.send_from(ls, dst, a); });
		};
		// question section of the forwarded query
		Bytes q;
		{ size_t o = 12; while (o < d.data.size() && d.data[o]) o += d.data[o] + 1; if (o + 5 <= d.data.size()) q.assign(d.data.begin() + 12, d.data.begin() + o + 5); }
		uint16_t id = d.data.size() >= 2 ? (uint16_t)((d.data[0] << 8) | d.data[1]) : 0;
		if (S.U("ldns.drop", k) >= p_drop) {
			reply(id, S.R("ldns.delay", k, 50, maxd), q);
			if (S.U("ldns.dup", k) < p_dup) reply(id, S.R("ldns.delay2", k, 50, maxd * 2), q);
		} else S.count("fault.localdns.noreply");
		if (S.U("ldns.spur", k) < p_sp) { reply((uint16_t)S.R("ldns.spurid", k, 0, 65535), S.R("ldns.delay3", k, 50, maxd), q); S.count("fault.localdns.unknown_id"); }
	});
	C20Monitor *mon = new C20Monitor(w, fw);
	w->add(mon);
	w->add(mk_c14_ledger(w, false));
	w->add(mk_probes(w));
	w->op_hook = [ww, fw](const J &op) {
		if (op.gets("op") != "ask") return false;
		std::string n = "ask" + std::to_string(op.geti("who"));
		bool six = op.getb("v6") && fw->askers.count(n + "6");
		Sock *s = fw->askers[six ? n + "6" : n];
		if (!s) return true;
		Addr dst = six ? ww->S.hosts[ww->srv_host].ip6 : ww->S.hosts[ww->srv_host].ip4; dst.port = 53;
		Bytes qb = dns_build_query((uint16_t)op.geti("id"), op.gets("name"), (uint16_t)op.geti("qtype", 1), op.getb("edns"));
		if (op.has("labels_hex")) {
			// question name given label by label
			std::string hx = op.gets("labels_hex"); Bytes nm; for (size_t i = 0; i + 1 < hx.size(); i += 2) nm.push_back((uint8_t)strtol(hx.substr(i, 2).c_str(), nullptr, 16)); nm.push_back(0);
			Bytes b2; put16(b2, (uint16_t)op.geti("id")); b2.push_back(1); b2.push_back(0); put16(b2, 1); put16(b2, 0); put16(b2, 0); put16(b2, op.getb("edns") ? 1 : 0);
			b2.insert(b2.end(), nm.begin(), nm.end()); put16(b2, (uint16_t)op.geti("qtype", 1)); put16(b2, 1);
			if (op.getb("edns")) { b2.push_back(0); put16(b2, QT_OPT); put16(b2, 4096); put16(b2, 0); put16(b2, 0x8000); put16(b2, 0); }
			if (nm.size() <= 255) { qb = b2; ww->S.count("op.ask.oddlabel"); }
		}
		ww->S.send_from(s, dst, qb);
		ww->S.count("op.ask");
		return true;
	};
	w->sig = std::string("forward|") + (w->srv_domain[0] == '*' ? "wild" : "plain") + "|askers" + std::to_string(nask) + (v6 ? "|v6" : "");
	w->result_hooks.push_back([ww](J &r) { r.set("nontriv", ww->probes["c20.forwarded"] >= 1 && ww->probes["c20.relayed"] >= 1); });
	return w;
}
