// In-path DNS relay with a fixed transformation (the C11 family; also used to force
// an upstream codec in C08/C16).  Installed as Sim::path_filter: every non-loopback
// datagram passes through it between the sender's fate and delivery.
#include "relay.h"
#include <algorithm>

static bool is_rawf(const Bytes &b) { return b.size() >= 4 && b[0] == 0x10 && b[1] == 0xd1 && b[2] == 0x9e; }

static int qt_from_name(const std::string &s)
{
	if (s == "NULL") return QT_NULL; if (s == "PRIVATE") return QT_PRIVATE; if (s == "TXT") return QT_TXT; if (s == "SRV") return QT_SRV;
	if (s == "MX") return QT_MX; if (s == "CNAME") return QT_CNAME; if (s == "A") return QT_A;
	return 0;
}

void Relay::configure(const J &c)
{
	case_q = c.gets("case_q", "keep"); case_a = c.gets("case_a", "keep");
	text_a = c.getb("text_a");
	hibit = c.gets("hibit", "keep"); hibit_a = c.gets("hibit_a", "keep"); plus_a = c.gets("plus_a", "keep"); under_a = c.gets("under_a", "keep"); plus = c.gets("plus", "keep"); under = c.gets("under", "keep");
	refuse_mode = c.gets("refuse_mode", "servfail");
	if (c.has("refuse_types")) for (auto &t : c["refuse_types"].a) { int q = qt_from_name(t.s); if (q) refuse.insert(q); }
	maxans = (int)c.geti("maxans", 0); big = c.gets("big", "drop");
	edns = c.gets("edns", "keep");
	shuffle = c.getb("shuffle"); reencode = c.getb("reencode"); idrewrite = c.getb("idrewrite");
	ttl_rewrite = c.getb("ttl_rewrite");
	ref_reencode = c.getb("ref_reencode");
	nat = c.getb("nat");
}

std::string Relay::sig() const
{
	std::string s = "cq=" + case_q + ",ca=" + case_a + ",hb=" + hibit + "/" + hibit_a + ",+=" + plus + "/" + plus_a + ",_=" + under + "/" + under_a + (text_a ? ",txt" : "") + ",ed=" + edns + ",max=" + std::to_string(maxans) + "/" + big + ",ref=";
	for (int t : refuse) s += std::to_string(t) + "+";
	s += refuse_mode;
	if (shuffle) s += ",shuf"; if (reencode) s += ",reenc"; if (idrewrite) s += ",idrw"; if (ref_reencode) s += ",refenc"; if (nat) s += ",nat";
	return s;
}

static void recase(uint8_t &c, const std::string &mode, uint64_t key)
{
	bool lo = c >= 'a' && c <= 'z', up = c >= 'A' && c <= 'Z';
	if (!lo && !up) return;
	bool want_up = up;
	if (mode == "lower") want_up = false; else if (mode == "upper") want_up = true;
	else if (mode == "random") want_up = (splitmix64(key) >> 23) & 1;
	if (want_up && lo) c = (uint8_t)(c - 32); else if (!want_up && up) c = (uint8_t)(c + 32);
}

void Relay::answer_error(const Dgram &q, int rcode, bool tc)
{
	// header + question copied from the query
	Bytes a(q.data.begin(), q.data.begin() + std::min<size_t>(q.data.size(), 12));
	if (a.size() < 12) return;
	size_t o = 12; int guard = 0;
	while (o < q.data.size() && q.data[o] && guard++ < 128) { if (q.data[o] & 0xc0) return; o += q.data[o] + 1; }
	if (o + 5 > q.data.size()) return;
	a.insert(a.end(), q.data.begin() + 12, q.data.begin() + o + 5);
	a[2] = (uint8_t)(0x80 | (q.data[2] & 0x79) | (tc ? 2 : 0)); a[3] = (uint8_t)(0x80 | (rcode & 15));
	a[4] = 0; a[5] = 1; a[6] = a[7] = a[8] = a[9] = a[10] = a[11] = 0;
	bypass = true;
	S->inject(q.dst, srv_host, q.src, a);
	bypass = false;
	S->count("relay.error_reply");
}

bool Relay::filter(Dgram &d)
{
	if (bypass || is_rawf(d.data) || d.data.size() < 12) return true;
	bool is_answer = d.data[2] & 0x80;
	if (!is_answer && d.dst.port == 53) return filter_query(d);
	if (is_answer && d.src.port == 53) return filter_answer(d);
	return true;
}

bool Relay::filter_query(Dgram &d)
{
	nq++;
	Bytes &b = d.data;
	// locate the question name
	size_t o = 12; int guard = 0; bool has_hi = false, has_plus = false, has_under = false;
	while (o < b.size() && b[o] && guard++ < 128) {
		if (b[o] & 0xc0) return true;      // not a plain query name: pass untouched
		size_t l = b[o];
		if (o + 1 + l > b.size()) return true;
		for (size_t i = 1; i <= l; i++) { uint8_t c = b[o + i]; if (c >= 0x80) has_hi = true; if (c == '+') has_plus = true; if (c == '_') has_under = true; }
		o += l + 1;
	}
	if (o + 5 > b.size()) return true;
	int qtype = (b[o + 1] << 8) | b[o + 2];
	size_t qend = o + 5;
	bool refuse_it = refuse.count(qtype) > 0;
	if (has_hi && hibit == "reject") refuse_it = true;
	if (has_plus && plus == "reject") refuse_it = true;
	if (has_under && under == "reject") refuse_it = true;
	bool has_opt = ((b[10] << 8) | b[11]) > 0 && b.size() > qend;
	if (has_opt && edns == "drop") { S->count("relay.edns_drop"); return false; }
	if (refuse_it) {
		S->count("relay.refused");
		if (refuse_mode == "servfail") answer_error(d, 2, false);
		else if (refuse_mode == "notimp") answer_error(d, 4, false);
		return false;
	}
	// transformations
	uint64_t key = splitmix64(S->seed ^ 0x7e1a) ^ (nq * 0x9e3779b97f4a7c15ull);
	size_t p = 12;
	while (p < o) {
		size_t l = b[p];
		for (size_t i = 1; i <= l; i++) {
			uint8_t &c = b[p + i];
			if (case_q != "keep") recase(c, case_q, key ^ (p + i) * 1315423911ull);
			if (c >= 0x80 && hibit == "strip") { c &= 0x7f; if (c < 0x21) c = '-'; }
			if (c == '+' && plus == "mangle") c = '-';
			if (c == '_' && under == "mangle") c = '-';
		}
		p += l + 1;
	}
	if (has_opt && edns == "strip") { b.resize(qend); b[10] = b[11] = 0; S->count("relay.edns_strip"); }
	if (idrewrite) {
		uint16_t oid = (b[0] << 8) | b[1];
		uint16_t nid = (uint16_t)(splitmix64(key ^ 0x1d) % 65535 + 1);
		idmap[{d.src.str(), nid}] = oid;
		if (idmap.size() > 4096) idmap.erase(idmap.begin());
		b[0] = nid >> 8; b[1] = nid & 255;
	}
	if (nat) {
		// the relay is a host of its own: what it forwards carries its address (one port per client socket); answers find their
		// way back through the same mapping the altsrc re-deliveries use (the simulated path turns
		// the destination back into the client's before the relay sees the answer, so the id map above is keyed by the client's address)
		Addr orig = d.src; std::string os = orig.str(); uint64_t h = 1469598103934665603ull; for (char ch : os) h = (h ^ (uint8_t)ch) * 1099511628211ull;
		Addr na = Addr::v4("10.9.7.53", (uint16_t)(20000 + h % 20000));
		d.src = na; S->rd_altmap[na.str()] = orig; S->count("relay.nat");
	}
	return true;
}

bool Relay::filter_answer(Dgram &d)
{
	na++;
	if (idrewrite && d.data.size() >= 2) {
		uint16_t nid = (d.data[0] << 8) | d.data[1];
		auto it = idmap.find({d.dst.str(), nid});
		if (it != idmap.end()) { d.data[0] = it->second >> 8; d.data[1] = it->second & 255; }
	}
	if (ref_reencode) {
		// replace the server's encoding of the tunnel payload by the reference encoder's (same payload, same codec, different layout)
		DnsMsg m; Bytes pl;
		if (dns_parse_strict(d.data, m).empty() && m.qd.size() == 1 && !m.rcode && answer_payload(m, pl) && !pl.empty()) {
			char enc = 'T';
			uint16_t qt = m.qd[0].type;
			if (qt == QT_TXT) { if (!m.an.empty() && !m.an[0].txt.empty() && !m.an[0].txt[0].empty()) enc = (char)toupper(m.an[0].txt[0][0]); }
			else if (qt != QT_NULL && qt != QT_PRIVATE) {
				const DnsRR *first = nullptr;
				for (auto &r : m.an) if (!first || r.pref < first->pref) first = &r;
				if (first && !first->rname.labels.empty() && !first->rname.labels[0].empty()) { char l = (char)tolower(first->rname.labels[0][0]); enc = l == 'i' ? 'S' : l == 'j' ? 'U' : l == 'k' ? 'V' : 'T'; }
			}
			int used = 0;
			Bytes nb = build_answer(m.id, m.qd[0].name.dotted(), qt, pl, enc, &used);
			if (used == (int)pl.size() && nb.size() < 65000) { d.data = nb; S->count("relay.ref_reencoded"); }
			else S->count("relay.ref_reencode_nofit");
		}
	}
	bool need_rebuild = case_a != "keep" || shuffle || reencode || ttl_rewrite || hibit_a != "keep" || plus_a == "mangle" || under_a == "mangle";
	if (need_rebuild) {
		DnsMsg m;
		if (dns_parse_strict(d.data, m).empty()) {
			if (hibit_a == "reject" || hibit_a == "remove") {
				// the other two readings of "stripping or rejecting bytes >= 0x80" on the answer side: an answer that contains such a
				// byte (in a name of its data, or in TXT text when the relay treats that as text) is turned into SERVFAIL, or the
				// bytes are taken out (labels and character strings get shorter)
				bool has = false;
				for (auto &r : m.an) {
					if (r.type == QT_CNAME || r.type == QT_MX || r.type == QT_SRV || r.type == QT_NS) for (auto &l : r.rname.labels) for (auto c : l) if ((uint8_t)c >= 0x80) has = true;
					if (text_a && r.type == QT_TXT) { size_t o = 0; while (o < r.rdata.size()) { size_t l = r.rdata[o]; o++; for (size_t i = 0; i < l && o + i < r.rdata.size(); i++) if (r.rdata[o + i] >= 0x80) has = true; o += l; } }
				}
				if (has && hibit_a == "reject") {
					m.an.clear(); m.ns.clear(); m.ar.clear(); m.rcode = 2;
					d.data = dns_rebuild(m); S->count("relay.hibit_a_rejected");
					return true;
				}
				if (has) {
					for (auto &r : m.an) {
						if (r.type == QT_CNAME || r.type == QT_MX || r.type == QT_SRV || r.type == QT_NS) {
							std::vector<Bytes> nl;
							for (auto &l : r.rname.labels) { Bytes x; for (auto c : l) if ((uint8_t)c < 0x80) x.push_back(c); if (!x.empty()) nl.push_back(x); }
							if (nl.empty()) nl.push_back(Bytes(1, '-'));
							r.rname.labels = nl;
						}
						if (text_a && r.type == QT_TXT) {
							Bytes nd; size_t o = 0;
							while (o < r.rdata.size()) { size_t l = r.rdata[o]; o++; Bytes x; for (size_t i = 0; i < l && o + i < r.rdata.size(); i++) if (r.rdata[o + i] < 0x80) x.push_back(r.rdata[o + i]); o += l; nd.push_back((uint8_t)x.size()); nd.insert(nd.end(), x.begin(), x.end()); }
							r.rdata = nd;
						}
					}
					S->count("relay.hibit_a_removed");
				}
			}
			uint64_t key = splitmix64(S->seed ^ 0xa115) ^ (na * 0x9e3779b97f4a7c15ull);
			uint64_t ctr = 0;
			auto fix = [&](DnsName &n) {
				for (auto &l : n.labels) for (auto &c : l) {
					ctr++;
					if (case_a != "keep") recase(c, case_a, key ^ ctr * 1315423911ull);
					if (c >= 0x80 && hibit_a == "strip") { c &= 0x7f; if (c < 0x21) c = '-'; }
					if (c == '+' && plus_a == "mangle") c = '-';
					if (c == '_' && under_a == "mangle") c = '-';
				}
			};
			// the question section and the owner names are names too (a relay that normalises case does it everywhere)
			if (case_a != "keep") { for (auto &q : m.qd) { DnsName before = q.name; fix(q.name); for (auto &r : m.an) if (r.name.labels == before.labels) r.name = q.name; } }
			for (auto &r : m.an) { if (r.type == QT_CNAME || r.type == QT_MX || r.type == QT_SRV || r.type == QT_NS) fix(r.rname); if (ttl_rewrite) r.ttl = 30; }
			// ... and to the text of TXT answers (the character strings, not their length octets), for relays that treat it as text
			if (text_a) for (auto &r : m.an) if (r.type == QT_TXT) {
				size_t o = 0;
				while (o < r.rdata.size()) {
					size_t l = r.rdata[o]; o++;
					for (size_t i = 0; i < l && o + i < r.rdata.size(); i++) {
						uint8_t &c = r.rdata[o + i];
						ctr++;
						if (case_a != "keep") recase(c, case_a, key ^ ctr * 1315423911ull);
						if (c >= 0x80 && hibit_a == "strip") { c &= 0x7f; if (c < 0x21) c = '-'; }
						if (c == '+' && plus_a == "mangle") c = '-';
						if (c == '_' && under_a == "mangle") c = '-';
					}
					o += l;
				}
				S->count("relay.txt_text_transformed");
			}
			if (shuffle && m.an.size() > 1) {
				for (size_t i = m.an.size() - 1; i > 0; i--) { size_t j = splitmix64(key ^ (i * 77)) % (i + 1); std::swap(m.an[i], m.an[j]); }
			}
			d.data = dns_rebuild(m);
			S->count("relay.rebuilt");
		}
	}
	if (maxans > 0 && (int)d.data.size() > maxans) {
		S->count("relay.too_big");
		if (big == "trim") {
			// a relay that fits the answer into its limit by leaving out trailing records and setting TC
			DnsMsg m;
			if (dns_parse_strict(d.data, m).empty()) {
				m.ar.clear(); m.ns.clear(); m.tc = true;
				Bytes nb = dns_rebuild(m);
				while (!m.an.empty() && (int)nb.size() > maxans) { m.an.pop_back(); nb = dns_rebuild(m); }
				if ((int)nb.size() <= maxans) { d.data = nb; S->count("relay.trimmed"); return true; }
			}
			return false;
		}
		if (big == "servfail" || big == "tc") {
			// turn the answer into an empty error / truncated reply in place
			DnsMsg m;
			if (dns_parse_strict(d.data, m).empty()) {
				m.an.clear(); m.ns.clear(); m.ar.clear();
				if (big == "servfail") m.rcode = 2; else m.tc = true;
				d.data = dns_rebuild(m);
				return true;
			}
		}
		return false;
	}
	return true;
}

Relay *install_relay(World *w, const J &cfg)
{
	Relay *r = new Relay();
	r->S = &w->S; r->srv_host = w->srv_host;
	r->configure(cfg);
	w->S.path_filter = [r](Dgram &d) { return r->filter(d); };
	return r;
}

// ------------------------------------------------------------------ generation of a transformation
J gen_relay(Rng &r, const std::string &force_up)
{
	J c = J::obj();
	static const char *cases[] = {"keep", "lower", "upper", "random"};
	static const char *hib[] = {"keep", "strip", "reject"};
	static const char *pl[] = {"keep", "mangle", "reject"};
	if (force_up == "base32") { c.set("case_q", cases[r.range(1, 3)]); }
	else if (force_up == "base64") { c.set("hibit", hib[r.range(1, 2)]); }
	else if (force_up == "base64u") { c.set("hibit", hib[r.range(1, 2)]); c.set("plus", pl[r.range(1, 2)]); }
	else if (force_up == "base128") { }
	else {
		// swarm: each factor departs from the default with probability ~1/3
		if (r.chance(0.35)) c.set("case_q", cases[r.range(0, 3)]);
		if (r.chance(0.3)) c.set("case_a", cases[r.range(0, 3)]);
		if (r.chance(0.4)) c.set("hibit", hib[r.range(0, 2)]);
		if (r.chance(0.25)) { static const char *ha[] = {"strip", "strip", "remove", "reject"}; c.set("hibit_a", ha[r.range(0, 3)]); }
		if (r.chance(0.2)) c.set("plus_a", "mangle");
		if (r.chance(0.5)) c.set("text_a", true);       // the answer-side transformations also apply to the text of TXT records
		if (r.chance(0.15)) c.set("under_a", "mangle");
		if (r.chance(0.35)) c.set("plus", pl[r.range(0, 2)]);
		if (r.chance(0.25)) c.set("under", pl[r.range(0, 2)]);
		if (r.chance(0.5)) {
			static const char *ty[] = {"NULL", "PRIVATE", "TXT", "SRV", "MX", "CNAME", "A"};
			J a = J::arr();
			int keep = (int)r.range(0, 6);          // at least one type always passes
			for (int i = 0; i < 7; i++) if (i != keep && r.chance(0.5)) a.push(J(std::string(ty[i])));
			c.set("refuse_types", a);
			static const char *rm[] = {"servfail", "notimp", "drop"};
			c.set("refuse_mode", rm[r.range(0, 2)]);
		}
		if (r.chance(0.5)) {
			static const int sizes[] = {512, 1232, 4096, 768, 1500};
			c.set("maxans", sizes[r.range(0, 4)]);
			static const char *bg[] = {"drop", "servfail", "tc", "trim"};
			c.set("big", bg[r.range(0, 3)]);
		}
		if (r.chance(0.3)) { c.set("edns", r.chance(0.5) ? "strip" : "drop"); if (!c.has("maxans")) { c.set("maxans", 512); c.set("big", "drop"); } }
		if (r.chance(0.2)) c.set("shuffle", true);
		if (r.chance(0.2)) c.set("reencode", true);
		if (r.chance(0.3)) c.set("idrewrite", true);
		if (r.chance(0.2)) c.set("ttl_rewrite", true);
	}
	return c;
}
