// Scenario "probe" (C09, pairing i): real iodined answers a scripted model client's fragment-size
// probes for many lengths, in one (query type, downstream codec, query-name length) cell per run;
// the answers are decoded by the reference decoder.
#include "scen.h"
#include "gen.h"
#include "model.h"
#include <algorithm>

struct C09Probe : Monitor {
	World *w;
	// per name-length class: requested length -> 2 exact, 1 proper prefix, 0 nothing
	std::map<int, std::map<int, int>> seen;
	C09Probe(World *w) : w(w) {}

	void on_send(const Dgram &d, Sock *s) override
	{
		if (!s || s->owner != w->srv) return;
		if (d.data.size() >= 4 && d.data[0] == 0x10 && d.data[1] == 0xd1 && d.data[2] == 0x9e) return;
		DnsMsg m; UpQuery u;
		if (!dns_parse_strict(d.data, m).empty() || m.qd.empty()) return;
		std::string qn = m.qd[0].name.dotted();
		if (!decode_upquery(qn, w->domain, u) || u.cmd != 'r' || u.raw.size() < 4) return;
		int c1 = std::max(0, b32val(u.raw[0])), c2 = std::max(0, b32val(u.raw[1])), c3 = std::max(0, b32val(u.raw[2]));
		int F = ((c1 & 1) << 10) | ((c2 & 31) << 5) | (c3 & 31);
		Bytes pl; bool has = answer_payload(m, pl);
		std::string ps(pl.begin(), pl.end());
		if (has && (ps == "BADIP" || ps == "BADLEN")) { w->probes["c09.refused"]++; return; }
		char b[300];
		if (F < 2) { if (!(has && ps == "BADFRAG")) { snprintf(b, sizeof b, "probe for length %d was not refused", F); w->S.violate("C09", "probe.range", b); } return; }
		w->probes["c09.probes"]++;
		int cls = (int)qn.size();
		int &slot = seen[cls][F];
		if (!has || pl.empty()) { slot = std::max(slot, 0); w->probes["c09.nothing"]++; return; }
		// the documented probe pattern: length (2 bytes), 107, then a sequence stepping by 107
		bool ok = pl.size() <= (size_t)F;
		if (ok && pl.size() >= 1 && pl[0] != ((F >> 8) & 0xff)) ok = false;
		if (ok && pl.size() >= 2 && pl[1] != (F & 0xff)) ok = false;
		if (ok && pl.size() >= 3 && pl[2] != 107) ok = false;
		for (size_t i = 4; ok && i < pl.size(); i++) if ((uint8_t)(pl[i] - pl[i - 1]) != 107) ok = false;
		if (!ok) {
			snprintf(b, sizeof b, "probe length %d, type %u: the answer decodes to %zu bytes that are neither the probe pattern nor a prefix of it (%s)", F, m.qd[0].type, pl.size(), hexs(pl, 12).c_str());
			w->S.violate("C09", "different_bytes", b); return;
		}
		if ((int)pl.size() == F) { slot = 2; w->probes["c09.exact"]++; }
		else { slot = std::max(slot, 1); w->probes["c09.prefix"]++; }
	}
	void on_end() override
	{
		for (auto &c : seen) {
			int max_exact = -1;
			for (auto &p : c.second) if (p.second == 2) max_exact = std::max(max_exact, p.first);
			for (auto &p : c.second) if (p.first < max_exact && p.second != 2) {
				char b[240]; snprintf(b, sizeof b, "length %d is delivered exactly but the shorter length %d is not (query name of %d characters)", max_exact, p.first, c.first);
				w->S.violate("C09", "not_monotonic", b); break;
			}
			if (max_exact >= 0) w->probes["c09.cells_with_threshold"]++;
		}
	}
};

J gen_probe(uint64_t seed, const J &ov)
{
	Rng r(seed, "probe");
	J plan = J::obj(), cfg = J::obj(), ops = J::arr();
	plan.set("scenario", "probe"); plan.set("seed", (long long)seed);
	std::string dom = gen_domain(r, (int)(r.chance(0.5) ? r.range(3, 20) : r.range(20, 100)));
	cfg.set("domain", dom); cfg.set("password", gen_password(r));
	cfg.set("keep_running", true); cfg.set("clients", J::arr());
	static const char *qts[] = {"NULL", "PRIVATE", "TXT", "SRV", "MX", "CNAME", "A"};
	static const char *des[] = {"", "t", "s", "u", "v", "r"};
	std::string qt = ov.has("qtype") ? ov.gets("qtype") : qts[r.range(0, 6)];
	std::string de = ov.has("downenc") ? ov.gets("downenc") : des[r.range(0, 5)];
	J m = J::obj(); m.set("name", "m0"); m.set("ip", "10.9.3.1"); m.set("auto", false); m.set("qtype", qt);
	J models = J::arr(); models.push(m); cfg.set("models", models);
	cfg.set("probe_qtype", qt); cfg.set("probe_downenc", de);
	auto mc = [&](double t, const char *act) { J op = J::obj(); op.set("ref", "abs"); op.set("t", (long long)(t * 1e6)); op.set("op", "mc"); op.set("who", "m0"); op.set("act", act); return op; };
	ops.push(mc(0.2, "v")); ops.push(mc(0.4, "l"));
	if (!de.empty()) { J o = mc(0.6, "o"); o.set("opt", de); ops.push(o); }
	// lengths: boundaries of every format, a contiguous window, and a random sample
	std::set<int> L;
	static const int special[] = {0, 1, 2, 3, 4, 5, 6, 7, 8, 9, 10, 100, 119, 120, 121, 149, 150, 151, 152, 153, 154, 155, 156, 157, 180, 181, 182, 183, 184, 185, 186, 187, 188, 210, 211, 212, 213, 214, 215, 216, 217, 218, 219, 220,
		250, 251, 252, 253, 254, 255, 256, 257, 258, 503, 504, 505, 506, 507, 508, 509, 510, 511, 512, 513, 755, 756, 757, 758, 759, 760, 1007, 1008, 1009, 1010, 1011, 1023, 1024, 1025, 1200, 1259, 1260, 1261, 2040, 2041, 2042, 2043, 2044, 2045, 2046, 2047};
	for (int x : special) if (r.chance(0.6)) L.insert(x);
	int a = (int)r.range(2, 1200); for (int i = 0; i < 50; i++) L.insert(a + i);
	for (int i = 0; i < 40; i++) L.insert((int)r.range(2, r.chance(0.7) ? 400 : 2047));
	// query-name length: short or as long as allowed
	int overhead = (int)dom.size() + 1 + 5;
	int maxfill = 253 - overhead; maxfill -= maxfill / 57 + 2;
	bool longname = r.chance(0.5);
	int fill = longname ? std::max(11, maxfill) : (int)r.range(11, 30);
	cfg.set("probe_fill", fill);
	double t = 1.0;
	std::vector<int> order(L.begin(), L.end());
	for (size_t i = order.size(); i > 1; i--) std::swap(order[i - 1], order[r.range(0, (int)i - 1)]);   // any order: the threshold must not depend on history
	for (int f : order) { J o = mc(t, "r"); o.set("f", f); o.set("fill", fill); ops.push(o); t += 0.01; }
	cfg.set("tmax_s", (int)t + 3);
	plan.set("cfg", cfg); plan.set("ops", ops);
	return plan;
}

World *build_probe(const J &plan)
{
	World *w = new World();
	w->plan = plan;
	w->build_common();
	Models *ms = new Models(); ms->w = w; w->models = ms;
	for (auto &m : w->cfg["models"].a) ms->add(m.gets("name"), m);
	w->add(new C09Probe(w));
	w->add(mk_c14_ledger(w, false));
	w->add(mk_probes(w));
	w->sig = "probe|" + w->cfg.gets("probe_qtype") + "/" + (w->cfg.gets("probe_downenc").empty() ? "default" : w->cfg.gets("probe_downenc")) + (w->cfg.geti("probe_fill") > 40 ? "/longname" : "/shortname");
	World *ww = w;
	w->result_hooks.push_back([ww](J &r) { r.set("nontriv", ww->probes["c09.exact"] >= 5); });
	return w;
}
