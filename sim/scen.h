// Scenario layer: builds a simulated world from a plan and attaches monitors.
#pragma once
#include "sim.h"
#include "ref.h"
#include "peek.h"

struct World;
struct Models;

struct ClientInfo {
	Task *task = nullptr;
	int host = -1;
	int index = 0;
	std::string tun_ip;           // from its own ifconfig command
	uint32_t tun_ip_h = 0;
	bool in_tunnel = false;       // reached client_tunnel()
	uint64_t t_tunnel = 0;
	int sockfd = -1, tunfd = -1;
	int userid = -1;              // learned from the wire (VACK)
	bool raw_mode = false;        // sends raw frames
	bool late = false;            // started later; does not gate T0
};

struct Offered {
	int where;                    // task id that read it
	uint64_t t;
	uint64_t ser;
};

struct World {
	Sim S;
	J plan, cfg;
	std::string scen;
	Task *srv = nullptr;
	int srv_host = -1;
	std::vector<ClientInfo> clients;
	std::string domain;           // what clients use
	std::string srv_domain;       // what the server is given (may be "*.x")
	std::string password;
	std::string srv_ip = "10.9.0.1";
	std::string tun_net = "10.11.12.1";
	int tun_bits = 24;
	uint32_t srv_tun_ip_h = 0;
	bool all_in_tunnel = false;
	uint64_t T0 = 0;              // moment all clients reached tunnel mode
	uint64_t dur_after_T0 = 30ull * 1000000;
	std::vector<Monitor *> owned;
	std::map<std::string, int64_t> probes;
	bool nontrivial = false;
	std::string sig;              // configuration signature for distinctness
	J samples = J::arr();
	std::function<void()> on_T0;  // scenario hook
	std::vector<std::function<void(J &)>> result_hooks;
	Models *models = nullptr;     // model peers (sessions / forward scenarios)
	std::function<bool(const J &)> op_hook;   // scenario-specific ops
	size_t up_chunk = 0;          // largest upstream data chunk (decoded bytes) seen from a real client so far (for frames aligned with it)
	std::map<std::string, uint16_t> first_id;                  // per real client: DNS id of its very first query
	std::map<std::string, std::deque<uint16_t>> recent_ids;   // per real client: DNS ids of its latest queries (for spoofers that must not match)

	virtual ~World() { for (auto m : owned) delete m; }
	void build_common();          // hosts, server, clients from cfg
	void schedule_ops();          // "ops" of the plan
	void run();
	J result();
	J fate_json(const std::pair<int, uint64_t> &key, const Fate &f);
	void add(Monitor *m) { owned.push_back(m); S.monitors.push_back(m); }
	ClientInfo *client_of(Task *t) { for (auto &c : clients) if (c.task == t) return &c; return nullptr; }
	Bytes make_packet(const J &op);   // deterministic packet from op fields
	void do_op(const J &op);
};

// generation (seed -> plan) and execution (plan -> result)
J gen_plan(const std::string &scen, uint64_t seed, const J &overrides);
J run_plan(const J &plan, int verbose, const char *trace_path);

// monitors shared by several scenarios
Monitor *mk_world_tracker(World *w);          // handshake/tunnel phase, client ips (must be first)
Monitor *mk_c01_integrity(World *w);
Monitor *mk_c02_delivery(World *w, bool clean_a, bool recovery_b, const std::string &prop = "C02");
Monitor *mk_c16_redeliver(World *w);
Monitor *mk_second_session(World *w);          // C11 two-session runs: delivery for the client started after a restart
Monitor *mk_stale_dup(World *w);               // fault injector: old data answers (4-7 sequence numbers back) re-delivered between fragments
Monitor *mk_c15_fragsize(World *w);
Monitor *mk_c08_names(World *w);
Monitor *mk_c09_probe_judge(World *w);
Monitor *install_injector(World *w);      // C09: reference-encoded downstream stream with arbitrary fragment lengths
Monitor *mk_c10_wellformed(World *w);
Monitor *mk_c14_ledger(World *w, bool check_held);
Monitor *mk_probes(World *w);
