// Deterministic simulator for iodine/iodined: core declarations.
// One process hosts the real iodined and up to three real iodine clients as
// ucontext fibers; every libc entry point that meets nondeterminism is
// replaced at link time (-Wl,--wrap) by the functions in wraps.cc.
#pragma once
#include <stdint.h>
#include <string.h>
#include <string>
#include <vector>
#include <deque>
#include <map>
#include <set>
#include <functional>
#include <memory>
#include <ucontext.h>
#include <sys/socket.h>
#include <netinet/in.h>
#include "json.h"

typedef std::vector<uint8_t> Bytes;

// ---------------------------------------------------------------- addresses
struct Addr {
	int fam = 0;           // AF_INET / AF_INET6 / 0 = none
	uint8_t a[16] = {0};   // 4 or 16 bytes used
	uint16_t port = 0;     // host order
	bool is_any() const;
	bool same_ip(const Addr &o) const;
	bool operator==(const Addr &o) const { return same_ip(o) && port == o.port; }
	std::string str() const;
	static Addr v4(const char *dotted, uint16_t port);
	static Addr v4(uint32_t hostorder, uint16_t port);
	static Addr v6(const char *txt, uint16_t port);
	static Addr from_sockaddr(const struct sockaddr *sa, socklen_t len);
	socklen_t to_sockaddr(struct sockaddr_storage *ss) const;
	uint32_t v4_hostorder() const;
};

struct Dgram {
	Addr src, dst;
	Bytes data;
	uint64_t serial = 0;   // global send ordinal
	int src_host = -1;
	int hop = 0;
	int stream = -1;       // stream id (src host -> dst host)
	uint64_t ordinal = 0;  // ordinal on that stream
	uint64_t t_sent = 0;
	bool redelivery = false; // a copy injected by a redeliver fate
	bool retyped = false;    // a redelivery copy whose question type was changed
	bool decoy = false;      // inert datagram queued in front of another one (C12 history differential)
};

struct Host {
	int id;
	std::string name;
	Addr ip4;
	Addr ip6;  // fam==0 if none
};

struct Task;

struct Sock {
	int fd = -1;
	int host = -1;
	Task *owner = nullptr;          // fiber task or nullptr for model sockets
	int fam = AF_INET;
	bool bound = false;
	Addr local;                     // may be wildcard
	bool pktinfo4 = false, pktinfo6 = false;
	std::deque<Dgram> rx;
	std::function<void(const Dgram &)> on_rx; // model sockets
	uint64_t rx_dropped = 0;
};

struct Tun {
	int fd = -1;
	Task *owner = nullptr;
	std::string ifname;
	std::deque<Bytes> inq;          // packets waiting to be read by the program
};

// ---------------------------------------------------------------- tasks
enum TaskState { T_NEW, T_RUNNABLE, T_SELECT, T_SLEEP, T_EXITED };

struct Task {
	int id = -1;
	std::string name;
	int host = -1;
	int (*mainfn)(int, char **) = nullptr;
	std::vector<std::string> args;
	ucontext_t ctx;
	void *stack = nullptr;
	size_t stack_size = 0;
	TaskState state = T_NEW;
	// select bookkeeping
	fd_set *sel_r = nullptr;
	int sel_nfds = 0;
	uint64_t deadline = 0;          // absolute us, UINT64_MAX = none
	int sel_result = 0;
	bool interrupted = false;
	uint64_t stall_until = 0;
	int exit_code = 0;
	bool exited_by_exit = false;
	uint64_t rand_ctr = 0;
	uint64_t rand_key = 0;
	std::map<uint64_t, int> rand_pin;  // n-th rand() call -> value
	void (*sig_handlers[32])(int) = {0};
	uint64_t steps = 0;             // number of select() entries
	uint64_t start_at = 0;
	bool is_server = false;
	int client_index = -1;
	std::vector<std::string> system_cmds;
	uint64_t t_exit = 0;
	uint64_t n_select = 0, n_sent = 0, n_recv = 0;
};

// ---------------------------------------------------------------- monitors
struct Monitor {
	virtual ~Monitor() {}
	virtual void on_tun_read(Task &, const Bytes &) {}
	virtual void on_tun_write(Task &, const Bytes &) {}
	// a datagram handed to the network by a socket (before any fate)
	virtual void on_send(const Dgram &, Sock *) {}
	// a datagram placed in a socket's receive queue / given to a model handler
	virtual void on_deliver(const Dgram &, Sock *) {}
	// a real program picked the datagram up with recv*()
	virtual void on_recv(Task &, const Dgram &) {}
	virtual void on_system(Task &, const std::string &) {}
	// a real program is about to block in select()/sleep() (= end of a step)
	virtual void on_block(Task &) {}
	virtual void on_exit(Task &) {}
	virtual void on_end() {}
};

struct Violation {
	std::string prop, clause, detail;
};

// per-datagram fate decided by the path model
// a later re-delivery of the same datagram (impatient / load-balanced relay)
struct Redeliv {
	uint64_t delay = 0;          // us after the original's delivery time
	uint16_t idxor = 0;          // DNS id changed by xor (0 = same id)
	uint64_t recase = 0;         // non-zero: letters of the question name re-cased by this key
	bool altsrc = false;         // arrives from another relay address
	bool altport = false;        // arrives from the same address but another source port (a relay that randomises its ports per attempt)
	uint16_t retype = 0;         // non-zero: the copy asks the same name with this query type (another question, not a repeat)
};

struct Fate {
	bool drop = false;
	int dup = 0;                 // extra copies
	uint64_t extra_delay = 0;    // us
	uint64_t dup_delay = 0;      // us between copies
	int trunc = -1;              // new length, -1 = none
	int flipbit = -1;            // bit index, -1 = none
	bool has_replace = false;    // on-path party substitutes the whole datagram
	Bytes replace;
	std::vector<Redeliv> redeliv;
	// on-path party substitutes a synthetic downstream fragment for this answer (same id and question): compact form of `replace`
	int synth_size = 0; int synth_seq = 0, synth_frag = 0, synth_last = 0; uint64_t synth_key = 0; char synth_enc = 'T';
	bool is_default() const { return !drop && !dup && !extra_delay && trunc < 0 && flipbit < 0 && !has_replace && redeliv.empty() && !synth_size; }
};

struct FaultCfg {
	// generative mode: probabilities in a window [t0,t1) (us)
	uint64_t t0 = 0, t1 = 0;
	double p_drop = 0, p_dup = 0, p_delay = 0, p_trunc = 0, p_flip = 0;
	double p_redeliv = 0;            // queries to port 53 only
	double p_rd_newid = 0, p_rd_recase = 0, p_rd_altsrc = 0, p_rd_retype = 0, p_rd_altport = 0, p_rd_again = 0;
	uint64_t rd_max_delay = 0;
	uint64_t max_delay = 0;
	uint64_t dr0 = 0, dr1 = 0; int dr_host = -1;   // drought: every datagram sent by host dr_host in [dr0, dr1) is lost
	char hold_cmd = 0; uint64_t hold_delay = 0; int hold_dir = 0;   // every DNS datagram in the window whose question starts with this command letter is held back (dir 0: queries, 1: answers, 2: both)
	// rawlate: the client tried raw mode during its handshake; every raw frame of the server is lost (the client carries on in DNS
	// mode) and copies of the client's raw login datagrams arrive rawlate_min..rawlate_max us late, i.e. in the middle of the DNS-mode session
	bool rawlate = false; uint64_t rawlate_min = 0, rawlate_max = 0;
	bool enabled() const { return t1 > t0 || dr1 > dr0 || rawlate; }
};

struct Event {
	uint64_t t, seq;
	std::function<void()> fn;
};
struct EventCmp { bool operator()(const Event &a, const Event &b) const { return a.t != b.t ? a.t > b.t : a.seq > b.seq; } };

// ---------------------------------------------------------------- the simulator
struct Sim {
	uint64_t seed = 0;
	uint64_t now = 0;               // us
	bool poison_tails = false;      // pair runs: the unused rest of every decode buffer (hook VERIF_TAIL in /repo) gets the residue pattern
	uint64_t epoch = 1700000000;    // time() = epoch + now/1e6
	uint64_t seq = 0;
	uint64_t nevents = 0, max_events = 400000;
	uint64_t tmax = 400ull * 1000000;
	bool capped = false;
	std::vector<Event> heap;
	std::vector<Host> hosts;
	std::vector<std::unique_ptr<Task>> tasks;
	std::map<int, std::unique_ptr<Sock>> socks;
	std::map<int, std::unique_ptr<Tun>> tuns;
	std::vector<Monitor *> monitors;
	std::vector<Violation> violations;
	std::map<std::string, int64_t> counters;   // fault firings, probes
	Task *cur = nullptr;
	ucontext_t sched_ctx;
	const void *sched_stack = nullptr; size_t sched_stack_size = 0;

	// path model
	std::map<std::pair<int,int>, int> stream_ids;   // (src host, dst host) -> stream
	std::vector<uint64_t> stream_next;              // next ordinal per stream
	std::vector<std::pair<int,int>> stream_hosts;
	std::map<std::pair<int,uint64_t>, Fate> fates;  // explicit fates (by stream id)
	std::map<std::string, Fate> named_fates;        // explicit fates keyed "fromhost>tohost#n" (hosts may be created later)
	std::vector<std::pair<std::pair<int,uint64_t>, Fate>> fired; // recorded non-default
	bool explicit_fates = false;    // replay mode: only listed fates
	FaultCfg faults;
	std::map<std::pair<int,int>, uint64_t> latency; // (src host,dst host) -> us
	uint64_t default_latency = 1000;
	uint64_t dgram_serial = 0;
	// optional in-path rewrite hook (relay transformations); returns false to drop
	std::function<bool(Dgram &)> path_filter;
	// generative mode only: a hostile on-path party may decide to replace this datagram
	std::function<void(const Dgram &, Fate &)> gen_mutator;
	std::function<void(const std::pair<int,uint64_t> &, const Fate &)> on_fired;
	std::function<std::string(const Bytes &)> trace_decode;   // human-readable summary of a datagram (trace only)
	// a scheduled re-delivery is dropped when the gate says it is outside the window under test
	std::function<bool(const Dgram &)> redeliver_gate;
	// a relay that re-sent a query under a new id maps the answer back to the id its client used
	std::map<std::pair<std::string, uint16_t>, uint16_t> rd_idmap;
	std::map<std::string, Addr> rd_altmap;          // address of another relay instance -> the client it works for (answers are passed on)   // live log for runs that die

	// receive buffer residue (C12)
	int residue_mode = 0;           // 0 zeros, 1 0xFF, 2 marker, 3 previous datagram of other source
	// C12 history differential: every datagram reaching the server is preceded by an inert query (a name outside the tunnel
	// domain, ignored without -b) whose content differs between the two runs of a pair: 1 = filler text, 2 = the name of the
	// previous query of another source.  Whatever the server then does must not depend on which one it was.
	int decoy_variant = 0;
	Bytes decoy_prev_name;          // wire-format labels (without root) of the last query from another source
	Bytes residue_prev;

	// system() result
	int system_rc = 0;

	// fingerprint
	uint64_t fp = 1469598103934665603ull;
	bool fp_include_residue = false;
	FILE *trace = nullptr;          // optional human-readable event trace
	int verbose = 0;

	// ---- API
	int add_host(const std::string &name, const char *ip4, const char *ip6 = nullptr);
	Task *add_proc(const std::string &name, int host, int (*mainfn)(int, char **), std::vector<std::string> args, uint64_t start_at);
	Sock *model_socket(int host, int fam, uint16_t port, std::function<void(const Dgram &)> on_rx);
	void at(uint64_t t, std::function<void()> fn);
	void after(uint64_t dt, std::function<void()> fn) { at(now + dt, fn); }
	void run();
	void offer_tun(Task *t, const Bytes &pkt);      // queue a packet on task's tun
	void send_from(Sock *s, const Addr &dst, const Bytes &data);
	void inject(const Addr &src, int src_host, const Addr &dst, const Bytes &data); // raw injection (spoofing allowed)
	void deliver(Dgram d);                          // final placement into a socket
	void signal_task(Task *t, int sig);
	void violate(const std::string &prop, const std::string &clause, const std::string &detail);
	void count(const std::string &k, int64_t n = 1) { counters[k] += n; }
	void fp_mix(const void *p, size_t n);
	void fp_mix_u64(uint64_t v) { fp_mix(&v, 8); }
	void fp_mix_str(const std::string &s) { fp_mix(s.data(), s.size()); }
	void tracef(const char *fmt, ...) __attribute__((format(printf, 2, 3)));

	// decisions
	uint64_t D(const char *stream, uint64_t key) const;
	double U(const char *stream, uint64_t key) const { return (D(stream, key) >> 11) * (1.0 / 9007199254740992.0); }
	uint64_t R(const char *stream, uint64_t key, uint64_t lo, uint64_t hi) const { return lo + D(stream, key) % (hi - lo + 1); }

	Task *task_by_name(const std::string &n);
	Host *host_by_name(const std::string &n);
	Sock *sock_for(const Addr &dst, int from_host);
	Tun *tun_of(Task *t);
	int stream_of(int sh, int dh);

	// internals used by wraps
	void yield_block();
	void task_exit(int code, bool by_exit);
	bool sel_ready(Task *t, bool fill);
	void drain();
	void resume(Task *t);
	int alloc_fd();
	void free_fd(int fd);
	uint64_t time_s() const { return epoch + now / 1000000; }
};

extern Sim *g_sim;
extern char *g_curtask_shm;

// helpers
uint64_t fnv1a(const void *p, size_t n, uint64_t h = 1469598103934665603ull);
uint64_t splitmix64(uint64_t x);
std::string hexs(const Bytes &b, size_t max = 0);
std::string hexs(const void *p, size_t n);
Bytes unhex(const std::string &s);
inline Bytes B(const void *p, size_t n) { return Bytes((const uint8_t *)p, (const uint8_t *)p + n); }
inline Bytes Bs(const std::string &s) { return Bytes(s.begin(), s.end()); }

// real program entry points (renamed by objcopy)
extern "C" {
int iodined_main(int, char **);
int c0_main(int, char **);
int c1_main(int, char **);
int c2_main(int, char **);
}
