// Model peers written from the protocol specification (no code from /repo/src):
// a protocol client that can behave or misbehave, an adversary that sees the wire,
// askers and a local DNS server for the forwarding feature.
#pragma once
#include "scen.h"

struct MReply {
	uint64_t t = 0;
	uint16_t id = 0;
	char cmd = 0;
	std::string qname;
	Bytes payload;
	bool has_payload = false;
	int rcode = 0;
};

struct ModelClient {
	World *w = nullptr;
	std::string name;
	int host = -1;
	Sock *sock = nullptr;
	Sock *sock6 = nullptr;
	bool use_v6 = false;
	std::string domain, password;
	bool knows_password = true;
	uint16_t qtype = QT_NULL;
	bool lazy = false;
	int fragsize = 0;                 // requested with N after login (0 = leave default)
	char want_downenc = 0;
	int want_upenc = 0;               // upstream codec requested with S after login (0/5 = stay on Base32)
	bool upenc_pending = false; uint64_t upenc_sent_at = 0;   // S sent, reply not seen yet: no data until then (as the real client)
	int userid = -1;
	uint32_t seed = 0;
	bool have_seed = false, logged_in = false, raw = false;
	bool used_raw = false;            // has sent raw-mode frames (they share the session's reassembly buffer with DNS-mode data)
	std::string tun_ip; uint32_t tun_ip_h = 0;
	uint16_t next_id = 1;
	uint32_t cmc = 0;
	int up_codec = 5;
	// downstream reassembly
	int in_seq = 0, in_frag = 0; Bytes in_buf; bool in_active = false;
	std::vector<Bytes> received;      // uncompressed packets
	// upstream transfer
	std::deque<Bytes> out_q; Bytes out_cur; size_t out_off = 0, out_sent = 0; int out_seq = 0, out_frag = 0; bool out_active = false; int out_resend = 0; uint64_t out_gen = 0;
	std::vector<Bytes> sent_ok;
	struct Pending { char cmd; std::string qname; uint64_t t; };
	std::map<uint16_t, Pending> pending;
	std::vector<MReply> replies;
	bool autopilot = false;           // handshake + periodic pings + ack downstream
	double ping_period = 1.0;
	uint64_t auto_until = UINT64_MAX;
	bool stopped = false;
	int chunk_cap = 0;                // upstream payload bytes per chunk (0 = derive)
	std::deque<std::string> ping_parts;   // data parts of the last pings sent (a successor on the same slot may legally send the same names)
	std::string replay_from;          // after login, before anything else: repeat that model's last ping names if this session got its slot

	void start(uint64_t at);
	void stop() { stopped = true; }
	uint16_t send_name(const std::string &data_part, uint16_t qt = 0, const Addr *spoof_src = nullptr, int force_id = -1);
	uint16_t send_b32(char cmd, const Bytes &body, const Addr *spoof_src = nullptr);
	void do_version(uint32_t ver = 0x00000502);
	void do_login(const std::string &mode = "good", int uid_override = -1, const Addr *spoof_src = nullptr);
	void do_ping(const Addr *spoof_src = nullptr, int uid_override = -1);
	void do_simple(char cmd, const std::string &args, const Addr *spoof_src = nullptr);  // i,s,o,y,z: args follow the command letter
	void do_setfrag(int f, int uid_override = -1);
	void do_probe(int f, int fillchars = 40);
	void do_rawlogin(const std::string &mode = "good", const Addr *spoof_src = nullptr);
	void do_rawping();
	void do_rawdata(const Bytes &pkt);
	void send_packet(const Bytes &tun_frame);      // queue an upstream packet (autopilot sends it)
	void send_chunk(bool resend);
	void on_rx(const Dgram &d);
	void handle_data_reply(const MReply &r);
	void tick();
	Bytes login_hash(uint32_t challenge) const;
};

struct Models {
	World *w;
	std::map<std::string, std::unique_ptr<ModelClient>> clients;
	ModelClient *add(const std::string &name, const J &cfg);
	ModelClient *get(const std::string &name) { auto it = clients.find(name); return it == clients.end() ? nullptr : it->second.get(); }
	void do_op(const J &op);     // {"op":"mc","who":..,"act":..}
};
