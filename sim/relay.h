// In-path DNS relay applying a fixed transformation to queries and answers.
#pragma once
#include "scen.h"
#include "gen.h"

struct Relay {
	Sim *S = nullptr;
	int srv_host = -1;
	std::string case_q = "keep", case_a = "keep";   // keep|lower|upper|random
	std::string hibit = "keep";                      // keep|strip|reject   (bytes >= 0x80 in query names)
	std::string hibit_a = "keep";                    // keep|strip          (bytes >= 0x80 in names inside answers)
	std::string plus = "keep", under = "keep";       // keep|mangle|reject  (query names)
	std::string plus_a = "keep", under_a = "keep";   // keep|mangle         (names inside answers)
	std::set<int> refuse; std::string refuse_mode = "servfail";   // servfail|notimp|drop
	int maxans = 0; std::string big = "drop";        // drop|servfail|tc
	std::string edns = "keep";                       // keep|strip|drop
	bool shuffle = false, reencode = false, idrewrite = false, ttl_rewrite = false;
	bool text_a = false;                              // answer-side transformations also hit the text of TXT answers
	bool ref_reencode = false;                        // answers re-encoded by the reference encoder (C09: reference encoder -> real client)
	bool nat = false;                                 // queries leave the relay from the relay's own address (a resolver): the server sees another source than the client's raw frames have
	bool bypass = false;
	uint64_t nq = 0, na = 0;
	std::map<std::pair<std::string, uint16_t>, uint16_t> idmap;

	void configure(const J &c);
	std::string sig() const;
	bool filter(Dgram &d);
	bool filter_query(Dgram &d);
	bool filter_answer(Dgram &d);
	void answer_error(const Dgram &q, int rcode, bool tc);
	// what the transformation lets through (reference knowledge for the C11 oracle)
	bool passes_type(int qt) const { return !refuse.count(qt); }
};

Relay *install_relay(World *w, const J &cfg);
J gen_relay(Rng &r, const std::string &force_up = "");
