// World construction, op execution and the run driver.
#include "scen.h"
#include "model.h"
#include <stdio.h>
#include <stdlib.h>
#include <sys/select.h>
#include <arpa/inet.h>

static int (*const CLIENT_MAINS[3])(int, char **) = {c0_main, c1_main, c2_main};

static uint32_t ip_h(const std::string &s) { return Addr::v4(s.c_str(), 0).v4_hostorder(); }
static std::string ip_s(uint32_t h) { char b[32]; snprintf(b, sizeof b, "%u.%u.%u.%u", h >> 24, (h >> 16) & 255, (h >> 8) & 255, h & 255); return b; }

void World::build_common()
{
	scen = plan.gets("scenario");
	cfg = plan["cfg"];
	S.seed = (uint64_t)plan.geti("seed");
	S.epoch = 1700000000 + S.D("epoch", 0) % 100000000;
	domain = cfg.gets("domain", "t.example.com");
	srv_domain = cfg.gets("srv_domain", domain);
	password = cfg.gets("password", "secret");
	tun_net = cfg.gets("tun_ip", "10.11.12.1");
	tun_bits = (int)cfg.geti("tun_bits", 24);
	srv_tun_ip_h = ip_h(tun_net);
	S.residue_mode = (int)cfg.geti("residue", 0);
	S.tmax = (uint64_t)cfg.geti("tmax_s", 400) * 1000000ull;
	S.max_events = (uint64_t)cfg.geti("max_events", 400000);
	dur_after_T0 = (uint64_t)cfg.geti("dur_s", 30) * 1000000ull;
	S.default_latency = (uint64_t)cfg.geti("lat_default_us", 1000);

	bool srv6 = cfg.getb("srv_v6", false);
	srv_host = S.add_host("srv", srv_ip.c_str(), srv6 ? "fd00::1" : nullptr);
	std::vector<std::string> a = {"iodined", "-f", "-P", password};
	if (cfg.getb("no_check_ip")) a.push_back("-c");
	if (cfg.geti("bind_port")) { a.push_back("-b"); a.push_back(std::to_string(cfg.geti("bind_port"))); }
	if (cfg.geti("srv_mtu")) { a.push_back("-m"); a.push_back(std::to_string(cfg.geti("srv_mtu"))); }
	if (cfg.has("ns_ip")) { a.push_back("-n"); a.push_back(cfg.gets("ns_ip")); }
	if (cfg.geti("srv_debug")) a.push_back("-DD");
	a.push_back(tun_net + "/" + std::to_string(tun_bits));
	a.push_back(srv_domain);
	if (!cfg.getb("no_server")) {
		srv = S.add_proc("srv", srv_host, iodined_main, a, 0);
		srv->is_server = true;
	}

	const J &cl = cfg["clients"];
	for (size_t i = 0; i < cl.a.size() && i < 3; i++) {
		const J &c = cl.a[i];
		ClientInfo ci; ci.index = (int)i;
		std::string hip = c.gets("ip", "10.9.1." + std::to_string(10 + i));
		bool v6 = c.getb("v6", false);
		std::string hip6 = "fd00::1:" + std::to_string(10 + i);
		ci.host = S.add_host("c" + std::to_string(i), hip.c_str(), v6 ? hip6.c_str() : nullptr);
		std::vector<std::string> ca = {"iodine", "-f", "-P", c.gets("password", password)};
		if (!c.gets("qtype").empty()) { ca.push_back("-T"); ca.push_back(c.gets("qtype")); }
		if (!c.gets("downenc").empty()) { ca.push_back("-O"); ca.push_back(c.gets("downenc")); }
		if (c.has("lazy")) { ca.push_back("-L"); ca.push_back(std::to_string(c.geti("lazy"))); }
		if (c.geti("interval")) { ca.push_back("-I"); ca.push_back(std::to_string(c.geti("interval"))); }
		if (c.geti("fragsize")) { ca.push_back("-m"); ca.push_back(std::to_string(c.geti("fragsize"))); }
		if (c.geti("maxlen")) { ca.push_back("-M"); ca.push_back(std::to_string(c.geti("maxlen"))); }
		if (!c.getb("raw", false)) ca.push_back("-r");
		std::string ns = c.gets("nameserver", v6 && c.getb("use_v6") ? "fd00::1" : srv_ip);
		ca.push_back(ns);
		ca.push_back(c.gets("domain", domain));
		ci.task = S.add_proc("c" + std::to_string(i), ci.host, CLIENT_MAINS[i], ca, (uint64_t)c.geti("start_us", 100000 + 50000 * i));
		ci.task->client_index = (int)i;
		ci.late = c.getb("late", false);
		clients.push_back(ci);
		uint64_t up = (uint64_t)c.geti("lat_up_us", 1000), dn = (uint64_t)c.geti("lat_dn_us", 1000);
		S.latency[{ci.host, srv_host}] = up;
		S.latency[{srv_host, ci.host}] = dn;
	}

	// faults
	const J &f = cfg["faults"];
	if (f.k == J::OBJ && f.gets("ref", "abs") == "abs") {
		S.faults.t0 = (uint64_t)f.geti("t0_us"); S.faults.t1 = (uint64_t)f.geti("t1_us");
	}
	if (f.k == J::OBJ && f.geti("start_drought_us") > 0) {
		// everything the first client sends in the first moments of the run is lost (its very first query included)
		S.faults.dr0 = 0; S.faults.dr1 = (uint64_t)f.geti("start_drought_us"); S.faults.dr_host = clients.empty() ? -1 : clients[0].host;
	}
	if (f.k == J::OBJ) {
		S.faults.p_drop = f.getd("p_drop"); S.faults.p_dup = f.getd("p_dup"); S.faults.p_delay = f.getd("p_delay");
		S.faults.p_trunc = f.getd("p_trunc"); S.faults.p_flip = f.getd("p_flip");
		S.faults.max_delay = (uint64_t)f.geti("max_delay_us");
		if (f.has("hold_cmd")) { S.faults.hold_cmd = f.gets("hold_cmd")[0]; S.faults.hold_delay = (uint64_t)f.geti("hold_delay_us"); S.faults.hold_dir = (int)f.geti("hold_dir"); }
		S.faults.p_redeliv = f.getd("p_redeliv"); S.faults.p_rd_newid = f.getd("p_rd_newid"); S.faults.p_rd_recase = f.getd("p_rd_recase");
		S.faults.p_rd_altsrc = f.getd("p_rd_altsrc"); S.faults.p_rd_retype = f.getd("p_rd_retype"); S.faults.p_rd_altport = f.getd("p_rd_altport"); S.faults.rd_max_delay = (uint64_t)f.geti("rd_max_delay_us"); S.faults.p_rd_again = f.getd("p_rd_again"); S.faults.rawlate = f.getb("rawlate"); S.faults.rawlate_min = (uint64_t)f.geti("rawlate_min_us"); S.faults.rawlate_max = (uint64_t)f.geti("rawlate_max_us");
	}
	// explicit fates
	const J &fl = plan["fates"];
	if (fl.k == J::ARR) {
		S.explicit_fates = plan.getb("explicit_fates", true);
		for (auto &e : fl.a) {
			// stream is identified by host names so that it survives re-numbering
			Fate ft;
			ft.drop = e.getb("drop"); ft.dup = (int)e.geti("dup"); ft.extra_delay = (uint64_t)e.geti("delay_us");
			ft.dup_delay = (uint64_t)e.geti("dup_delay_us"); ft.trunc = (int)e.geti("trunc", -1); ft.flipbit = (int)e.geti("flip", -1);
			if (e.has("replace_hex")) { ft.has_replace = true; ft.replace = unhex(e.gets("replace_hex")); }
			if (e.has("synth")) { const J &y = e["synth"]; ft.synth_size = (int)y.geti("size"); ft.synth_seq = (int)y.geti("seq"); ft.synth_frag = (int)y.geti("frag"); ft.synth_last = (int)y.geti("last"); ft.synth_key = (uint64_t)y.geti("key"); std::string en = y.gets("enc", "T"); ft.synth_enc = en.empty() ? 'T' : en[0]; }
			if (e.has("redeliv")) for (auto &x : e["redeliv"].a) {
				Redeliv rd; rd.delay = (uint64_t)x.geti("delay_us"); rd.idxor = (uint16_t)x.geti("idxor"); rd.recase = (uint64_t)x.geti("recase"); rd.altsrc = x.getb("altsrc"); rd.altport = x.getb("altport"); rd.retype = (uint16_t)x.geti("retype");
				ft.redeliv.push_back(rd);
			}
			std::string key = (e.has("from") ? e.gets("from") : std::string("#") + std::to_string(e.geti("from_id", -1))) + ">" + (e.has("to") ? e.gets("to") : std::string("#") + std::to_string(e.geti("to_id", -1))) + "#" + std::to_string(e.geti("n"));
			S.named_fates[key] = ft;
		}
	}
	add(mk_world_tracker(this));
}

Bytes World::make_packet(const J &op)
{
	if (op.has("kfrag") && !op.has("_len")) {
		// a frame whose compressed size is exactly k fragments (or chunks) plus d bytes, in the direction it will travel: the sizes
		// at which "fits in 16 fragments", "last fragment" and the per-fragment arithmetic change their answer
		size_t F = 0;
		if (op.gets("at") == "srv") { UserView v; int uid = clients.empty() ? 0 : std::max(0, clients[0].userid); if (peek_user(uid, v)) F = (size_t)v.fragsize; }
		else F = up_chunk;
		long long target = (long long)F * op.geti("kfrag") + op.geti("dfrag");
		if (F >= 2 && target >= 40 && target <= 60000) {
			J o2 = op; o2.set("body", "rnd");
			long long L = target - 11;
			for (int it = 0; it < 6 && L >= 24; it++) {
				o2.set("_len", L);
				long long z = (long long)z_compress(make_packet(o2)).size();
				if (z == target) { probes["gen.kfrag_exact"]++; return make_packet(o2); }
				L += target - z;
			}
		}
	}
	uint64_t ser = (uint64_t)op.geti("ser");
	size_t len = (size_t)(op.has("_len") ? op.geti("_len") : op.geti("len", 100));
	if (len < 1) len = 1;
	if (len > 65000) len = 65000;
	std::string body = op.gets("body", "rnd");
	Bytes p(len, 0);
	auto resolve = [&](const std::string &who, uint32_t dflt) -> uint32_t {
		if (who == "srv") return srv_tun_ip_h;
		if (who.size() == 2 && who[0] == 'c' && who[1] >= '0' && who[1] <= '2') { size_t i = who[1] - '0'; return i < clients.size() ? clients[i].tun_ip_h : dflt; }
		if (who == "ext") return ip_h("8.8.8.8");
		if (models && models->get(who)) return models->get(who)->tun_ip_h ? models->get(who)->tun_ip_h : dflt;
		if (who.empty()) return dflt;
		return ip_h(who);
	};
	uint32_t src = resolve(op.gets("src"), ip_h("192.0.2.1")), dst = resolve(op.gets("dst"), ip_h("192.0.2.2"));
	for (size_t i = 0; i < len; i++) {
		uint8_t v = 0;
		if (body == "rnd") v = (uint8_t)(splitmix64(ser * 1000003 + i / 8) >> (8 * (i % 8)));
		else if (body == "ff") v = 0xff;
		else if (body == "text") v = (uint8_t)("the quick brown fox jumps over the lazy dog "[(i + ser) % 44]);
		else if (body == "zero") v = 0;
		p[i] = v;
	}
	uint8_t hdr[24] = {0, 0, 8, 0, 0x45, 0, (uint8_t)((len - 4) >> 8), (uint8_t)(len - 4), (uint8_t)(ser >> 8), (uint8_t)ser, 0x40, 0, 64, 17, 0, 0,
		(uint8_t)(src >> 24), (uint8_t)(src >> 16), (uint8_t)(src >> 8), (uint8_t)src, (uint8_t)(dst >> 24), (uint8_t)(dst >> 16), (uint8_t)(dst >> 8), (uint8_t)dst};
	if (len >= 24) memcpy(p.data(), hdr, 24);
	else { memcpy(p.data(), hdr, len < 4 ? len : 4); for (size_t i = 4; i < len; i++) p[i] = (uint8_t)(splitmix64(ser) >> (8 * ((i - 4) % 8))); }
	// frames that are not a well-formed IPv4 packet of exactly this length: the tunnel carries whatever the tun device delivers
	std::string shape = op.gets("shape");
	if (len >= 24 && !shape.empty()) {
		if (shape == "v6") { p[4] = 0x60; p[5] = 0; p[6] = 0; p[7] = 0; p[8] = (uint8_t)((len - 44) >> 8); p[9] = (uint8_t)(len - 44); p[10] = 17; p[11] = 64; }
		else if (shape == "short_iplen") { size_t l = (len - 4) / 2; p[6] = (uint8_t)(l >> 8); p[7] = (uint8_t)l; }
		else if (shape == "long_iplen") { p[6] = 0xff; p[7] = 0xff; }
		else if (shape == "noip") for (size_t i = 4; i < 20; i++) p[i] = (uint8_t)(splitmix64(ser * 7919 + i) >> 13);
	}
	if (body == "nested" && len >= 80) {
		// an incompressible frame that carries complete zlib streams (an already compressed transfer, a tunnel in a tunnel).  With
		// "align" = F every stream is F bytes long and starts at k*F-7, i.e. exactly where the k-th F-byte slice of compress2(frame)
		// begins (2-byte zlib header + 5-byte stored-block header): a receiver that loses the first slice holds a buffer that starts
		// with a complete, valid zlib stream.
		for (size_t i = 24; i < len; i++) p[i] = (uint8_t)(splitmix64(ser * 1000003 + i / 8) >> (8 * (i % 8)));
		size_t F = 0;
		if (op.gets("align") == "auto") { UserView v; int uid = clients.empty() ? 0 : std::max(0, clients[0].userid); if (peek_user(uid, v)) F = (size_t)v.fragsize; }
		else if (op.gets("align") == "auto_up") F = up_chunk;
		else F = (size_t)op.geti("align", 0);
		if (op.getb("tail17") && F >= 30 && F <= 90) {
			// exactly 17 fragments: 16 full ones and a 17th that is itself a complete zlib stream (plus the outer checksum).  Fragment
			// numbers have 4 bits, so the 17th goes out as "fragment 0, last" of the same sequence number.
			size_t u = 25 + (size_t)(ser % (F - 20));
			size_t nl = 16 * F - 7 + u;
			if (nl > 24 && nl < 60000) {
				p.resize(nl); len = nl;
				for (size_t i = 24; i < len; i++) p[i] = (uint8_t)(splitmix64(ser * 1000003 + i / 8) >> (8 * (i % 8)));
				p[6] = (uint8_t)((len - 4) >> 8); p[7] = (uint8_t)(len - 4);
				Bytes z;
				for (size_t n = u - 11; n + 8 > u - 11 && n > 0; n--) { Bytes x(n); for (size_t i = 0; i < n; i++) x[i] = (uint8_t)(splitmix64(ser * 99991 + i) >> 9); z = z_compress(x); if (z.size() <= u) break; }
				if (!z.empty() && z.size() <= u) memcpy(&p[16 * F - 7], z.data(), z.size());
				probes["gen.tail17"]++;
				if (len >= 36) for (int i = 0; i < 8; i++) p[24 + i] = (uint8_t)(ser >> (8 * (7 - i)));
				return p;
			}
		}
		size_t unit = F >= 16 && F <= 4000 ? F : 16 + (size_t)(ser % 48);
		size_t pos = F >= 16 && F <= 4000 ? F - 7 : 40;
		while (pos < 40) pos += unit;
		uint64_t k = 0;
		while (pos + unit <= len) {
			Bytes z;
			for (size_t n = unit - 11; n + 8 > unit - 11 && n > 0; n--) {
				Bytes x(n); for (size_t i = 0; i < n; i++) x[i] = (uint8_t)(splitmix64(ser * 7777777 + (++k)) >> 17);
				z = z_compress(x);
				if (z.size() <= unit) break;
			}
			if (z.empty() || z.size() > unit) break;
			memcpy(&p[pos], z.data(), z.size());
			pos += unit;
		}
	}
	if (body == "adler" && len >= 120) {
		// a pair of incompressible frames of equal length whose first part is identical except for three adjacent bytes changed by
		// +1, -2, +1 (which leaves an Adler-32 over any stream containing them unchanged) and whose second part differs freely:
		// the zlib stream of "first part of a + rest of b" inflates and verifies, although nobody sent that frame
		uint64_t pair = (uint64_t)op.geti("pair");
		bool vb = op.gets("variant") == "b";
		size_t cut = len * 55 / 100;
		p[8] = (uint8_t)(pair >> 8); p[9] = (uint8_t)pair;                        // IP id from the pair, not the serial
		for (size_t i = 24; i < len; i++) {
			uint64_t k = i < cut ? pair * 2654435761ull + i / 8 : (pair * 2654435761ull + i / 8) ^ (vb ? 0xb0b0b0b0ull : 0xa0a0a0a0ull);
			p[i] = (uint8_t)(splitmix64(k) >> (8 * (i % 8)));
		}
		for (size_t i = 60; i < 63; i++) p[i] = (uint8_t)(4 + p[i] % 200);         // room for the +1/-2/+1
		if (vb) { p[60] += 1; p[61] -= 2; p[62] += 1; }
		return p;
	}
	// serial for uniqueness / attribution
	if (len >= 36) for (int i = 0; i < 8; i++) p[24 + i] = (uint8_t)(ser >> (8 * (7 - i)));
	if (len >= 40) { p[32] = 'S'; p[33] = 'I'; p[34] = 'M'; p[35] = '!'; }
	return p;
}

void World::do_op(const J &op)
{
	std::string k = op.gets("op");
	if (op_hook && op_hook(op)) return;
	if (k == "mc" && models) { models->do_op(op); return; }
	if (k == "tun") {
		std::string at = op.gets("at");
		Task *t = S.task_by_name(at);
		if (t && t->state == T_EXITED) for (auto &c : clients) if (c.task != t && c.task->host == t->host && c.task->state != T_EXITED) { t = c.task; break; }   // restarted instance on the same host
		if (!t || t->state == T_EXITED) { S.count("op.tun.notask"); return; }
		Bytes p = make_packet(op);
		S.tracef("OFFER %s ser=%lld len=%zu", at.c_str(), (long long)op.geti("ser"), p.size());
		S.offer_tun(t, p);
		S.count("op.tun");
	} else if (k == "tunhex") {
		Task *t = S.task_by_name(op.gets("at", "srv"));
		if (t && t->state != T_EXITED) { S.offer_tun(t, unhex(op.gets("hex"))); S.count("op.tunhex"); }
	} else if (k == "restart") {
		// the client program is stopped (SIGINT) and a fresh instance is started on the same host half a second later:
		// total state loss on one side while the server still holds the old session
		ClientInfo *old = nullptr;
		for (auto &c : clients) if (c.task->name == op.gets("task", "c0")) old = &c;
		if (!old || clients.size() >= 3 || old->task->state == T_EXITED) { S.count("op.restart.skipped"); return; }
		S.signal_task(old->task, 2);
		int idx = (int)clients.size();
		ClientInfo ci; ci.index = idx; ci.host = old->host; ci.late = true;
		ci.task = S.add_proc("c" + std::to_string(idx), old->host, CLIENT_MAINS[idx], old->task->args, S.now + (uint64_t)op.geti("after_us", 500000));
		ci.task->client_index = idx;
		clients.push_back(ci);
		S.count("fault.restart");
	} else if (k == "sigint") {
		S.signal_task(S.task_by_name(op.gets("task")), 2);
	} else if (k == "stall") {
		Task *t = S.task_by_name(op.gets("task"));
		if (t) { t->stall_until = S.now + (uint64_t)op.geti("us"); S.at(t->stall_until, []() {}); S.count("fault.stall"); }
	} else if (k == "dgram") {
		// raw injection from a named host (created on demand) to the server or a client
		std::string from = op.gets("from", "atk0");
		Host *h = S.host_by_name(from);
		if (!h) { int id = S.add_host(from, op.gets("from_ip", "10.9.2.1").c_str(), op.has("from_ip6") ? op.gets("from_ip6").c_str() : nullptr); h = &S.hosts[id]; }
		Addr dst;
		std::string to = op.gets("to", "srv");
		Host *th = S.host_by_name(to);
		bool v6 = op.getb("v6");
		if (th) dst = v6 ? th->ip6 : th->ip4;
		dst.port = (uint16_t)op.geti("dport", 53);
		if (op.gets("dport") == "auto" || op.geti("dport", 53) == 0) {
			// the (single) UDP socket of the target task
			Task *tt = S.task_by_name(to);
			for (auto &sp : S.socks) if (sp.second->owner == tt && sp.second->bound) dst.port = sp.second->local.port;
		}
		Addr src = v6 ? h->ip6 : h->ip4;
		if (op.has("spoof_ip")) src = Addr::v4(op.gets("spoof_ip").c_str(), 0);
		src.port = (uint16_t)op.geti("sport", 4000);
		Bytes payload = unhex(op.gets("hex"));
		if (op.getb("unmatched") && payload.size() >= 2) {
			// an off-path spoofer cannot know the ids in flight: make sure this one is none of the target's recent (or next) ids
			auto &ids = recent_ids[to];
			for (int guard = 0; guard < 64; guard++) {
				uint16_t id = (uint16_t)((payload[0] << 8) | payload[1]); bool hit = false;
				for (auto x : ids) for (int k = 0; k <= 3; k++) if ((uint16_t)(x + 7727 * k) == id) hit = true;
				if (!hit) break;
				id = (uint16_t)(id * 31 + 12345); payload[0] = id >> 8; payload[1] = id & 255;
			}
		}
		if (op.gets("aim") == "before_first" && payload.size() >= 2 && first_id.count(to)) {
			// the id one step BEFORE the target's first query (ids advance by 7727): a value the client never sent
			uint16_t id = (uint16_t)(first_id[to] - 7727); payload[0] = id >> 8; payload[1] = id & 255; S.count("op.dgram.aim_before_first");
		}
		if (op.gets("aim") == "zero_id" && payload.size() >= 2) { payload[0] = 0; payload[1] = 0; S.count("op.dgram.aim_zero_id"); }
		S.inject(src, h->id, dst, payload);
		S.count("op.dgram");
	}
}

void World::schedule_ops()
{
	const J &ops = plan["ops"];
	if (ops.k != J::ARR) return;
	for (auto &op : ops.a) {
		if (op.gets("ref", "T0") == "abs") {
			J copy = op;
			S.at((uint64_t)op.geti("t"), [this, copy]() { do_op(copy); });
		}
	}
}

static std::string describe(World *w, const Bytes &b)
{
	char o[400];
	if (b.size() >= 4 && b[0] == 0x10 && b[1] == 0xd1 && b[2] == 0x9e) { snprintf(o, sizeof o, "RAW cmd=%d uid=%d", b[3] >> 4, b[3] & 15); return o; }
	DnsMsg m;
	std::string e = dns_parse_strict(b, m);
	if (!e.empty()) return "UNPARSABLE(" + e + ") " + hexs(b, getenv("IOSIM_TRACE_FULL") ? 4096 : 16);
	std::string qn = m.qd.empty() ? "" : m.qd[0].name.dotted();
	UpQuery u; bool tun = !qn.empty() && decode_upquery(qn, w->domain, u);
	std::string s;
	snprintf(o, sizeof o, "id=%04x %s t=%d ", m.id, m.qr ? "ANS" : "QRY", m.qd.empty() ? -1 : m.qd[0].type); s = o;
	if (tun && u.cmd == 'd') { snprintf(o, sizeof o, "DATA u%d up=%d/%d ackdn=%d/%d last=%d cmc=%c n=%zu ", u.userid, u.up_seq, u.up_frag, u.dn_seq, u.dn_frag, u.last, u.cmc, u.enc_payload.size()); s += o; }
	else if (tun && u.cmd == 'p' && u.b32.size() >= 4) { snprintf(o, sizeof o, "PING u%d ackdn=%d/%d cmc=%02x%02x ", u.b32[0], (u.b32[1] >> 4) & 7, u.b32[1] & 15, u.b32[2], u.b32[3]); s += o; }
	else if (tun) { snprintf(o, sizeof o, "CMD %c ", u.cmd); s += o; }
	else s += "name=" + qn.substr(0, 40) + " ";
	if (m.qr) {
		Bytes pl;
		if (m.rcode) { snprintf(o, sizeof o, "rcode=%d", m.rcode); s += o; }
		else if (!answer_payload(m, pl)) s += "no-payload";
		else if (tun && (u.cmd == 'd' || u.cmd == 'p') && pl.size() >= 2 && (pl[0] & 0x80)) { snprintf(o, sizeof o, "-> ackup=%d/%d dn=%d/%d last=%d data=%zu", (pl[0] >> 4) & 7, pl[0] & 15, (pl[1] >> 5) & 7, (pl[1] >> 1) & 15, pl[1] & 1, pl.size() - 2); s += o; }
		else { std::string t(pl.begin(), pl.begin() + std::min<size_t>(pl.size(), 24)); for (auto &c : t) if (c < 32 || c > 126) c = '.'; s += "-> '" + t + "' (" + std::to_string(pl.size()) + ")"; }
	}
	return s;
}

void World::run()
{
	g_sim = &S;
	if (S.trace) { World *self = this; S.trace_decode = [self](const Bytes &b) { return describe(self, b); }; }
	schedule_ops();
	S.run();
	g_sim = nullptr;
}

J World::result()
{
	J extra = J::obj();
	for (auto &h : result_hooks) h(extra);      // hooks may add violations and probes, and override fields
	J r = J::obj();
	r.set("scenario", scen);
	r.set("seed", (long long)S.seed);
	char fpb[32]; snprintf(fpb, sizeof fpb, "%016llx", (unsigned long long)S.fp);
	r.set("fp", fpb);
	J v = J::arr();
	for (auto &x : S.violations) { J o = J::obj(); o.set("p", x.prop); o.set("clause", x.clause); o.set("detail", x.detail); v.push(o); }
	r.set("viol", v);
	J c = J::obj();
	for (auto &p : S.counters) c.set(p.first, (long long)p.second);
	for (auto &p : probes) c.set("probe." + p.first, (long long)p.second);
	r.set("cnt", c);
	r.set("sim_us", (long long)S.now);
	r.set("events", (long long)S.nevents);
	r.set("capped", S.capped);
	r.set("nontriv", nontrivial);
	r.set("sig", sig);
	r.set("T0", (long long)T0);
	J ex = J::obj();
	for (auto &t : S.tasks) if (t->state == T_EXITED) ex.set(t->name, t->exit_code);
	r.set("exits", ex);
	for (auto &p : extra.o) r.set(p.first, p.second);
	// the explicit fate list makes this run replayable without the generator
	J fl = J::arr();
	for (auto &f : S.fired) fl.push(fate_json(f.first, f.second));
	r.set("fired", fl);
	return r;
}

J World::fate_json(const std::pair<int, uint64_t> &key, const Fate &f)
{
	J o = J::obj();
	auto hs = S.stream_hosts[key.first];
	if (hs.first >= 0) o.set("from", S.hosts[hs.first].name); else o.set("from_id", hs.first);
	if (hs.second >= 0) o.set("to", S.hosts[hs.second].name); else o.set("to_id", hs.second);
	o.set("n", (long long)key.second);
	if (f.drop) o.set("drop", true);
	if (f.dup) { o.set("dup", f.dup); o.set("dup_delay_us", (long long)f.dup_delay); }
	if (f.extra_delay) o.set("delay_us", (long long)f.extra_delay);
	if (f.trunc >= 0) o.set("trunc", f.trunc);
	if (f.flipbit >= 0) o.set("flip", f.flipbit);
	if (f.has_replace) o.set("replace_hex", hexs(f.replace));
	if (f.synth_size) { J y = J::obj(); y.set("size", f.synth_size); y.set("seq", f.synth_seq); y.set("frag", f.synth_frag); y.set("last", f.synth_last); y.set("key", (long long)f.synth_key); y.set("enc", std::string(1, f.synth_enc)); o.set("synth", y); }
	if (!f.redeliv.empty()) {
		J a = J::arr();
		for (auto &r : f.redeliv) { J x = J::obj(); x.set("delay_us", (long long)r.delay); if (r.idxor) x.set("idxor", (int)r.idxor); if (r.recase) x.set("recase", (long long)r.recase); if (r.altsrc) x.set("altsrc", true); if (r.altport) x.set("altport", true); if (r.retype) x.set("retype", (int)r.retype); a.push(x); }
		o.set("redeliv", a);
	}
	return o;
}

// ------------------------------------------------------------------ world tracker
struct WorldTracker : Monitor {
	World *w;
	WorldTracker(World *w) : w(w) {}
	void on_system(Task &t, const std::string &cmd) override
	{
		ClientInfo *c = w->client_of(&t);
		if (!c) return;
		// "PATH=/sbin:/bin ifconfig dns0 A A netmask M"
		char ifn[64], a1[64], a2[64];
		if (sscanf(cmd.c_str(), "PATH=/sbin:/bin ifconfig %63s %63s %63s netmask", ifn, a1, a2) == 3) {
			struct in_addr ia;
			if (inet_pton(AF_INET, a1, &ia) == 1) { c->tun_ip = a1; c->tun_ip_h = ntohl(ia.s_addr); }
		}
	}
	void on_send(const Dgram &d, Sock *s) override
	{
		if (!s || !s->owner || s->owner == w->srv || d.data.size() < 2 || d.dst.port != 53) return;
		if (!w->first_id.count(s->owner->name)) w->first_id[s->owner->name] = (uint16_t)((d.data[0] << 8) | d.data[1]);
		auto &q = w->recent_ids[s->owner->name];
		q.push_back((uint16_t)((d.data[0] << 8) | d.data[1])); if (q.size() > 20) q.pop_front();
		// size of a full upstream chunk of a real client, as seen on the wire (for frames sized or aligned to it)
		if (w->client_of(s->owner) && d.data.size() > 40 && !(d.data[0] == 0x10 && d.data[1] == 0xd1)) {
			DnsMsg m; UpQuery u; UserView v;
			if (dns_parse_strict(d.data, m).empty() && !m.qd.empty() && decode_upquery(m.qd[0].name.dotted(), w->domain, u) && u.cmd == 'd' && !u.last && peek_user(u.userid, v)) {
				int c = codec_from_name(v.encoder);
				if (c) { size_t n = codec_decode(c, u.enc_payload).size(); if (n > w->up_chunk) w->up_chunk = n; }
			}
		}
	}
	void on_block(Task &t) override
	{
		ClientInfo *c = w->client_of(&t);
		if (!c || c->in_tunnel || t.state != T_SELECT || !t.sel_r) return;
		Tun *u = w->S.tun_of(&t);
		if (!u || u->fd >= t.sel_nfds || !FD_ISSET(u->fd, t.sel_r)) return;
		c->in_tunnel = true; c->t_tunnel = w->S.now;
		w->S.tracef("TUNNEL-PHASE %s", t.name.c_str());
		bool all = true;
		for (auto &x : w->clients) if (!x.in_tunnel && !x.late) all = false;
		if (all && !w->all_in_tunnel) {
			w->all_in_tunnel = true; w->T0 = w->S.now;
			const J &f = w->cfg["faults"];
			if (f.k == J::OBJ && f.gets("ref", "abs") == "T0") {
				w->S.faults.t0 = w->T0 + (uint64_t)f.geti("t0_us"); w->S.faults.t1 = w->T0 + (uint64_t)f.geti("t1_us");
				if (f.geti("drought_t1_us") > 0) { w->S.faults.dr0 = w->T0 + (uint64_t)f.geti("drought_t0_us"); w->S.faults.dr1 = w->T0 + (uint64_t)f.geti("drought_t1_us"); w->S.faults.dr_host = w->srv_host; }
			}
			const J &ops = w->plan["ops"];
			if (ops.k == J::ARR) for (auto &op : ops.a) if (op.gets("ref", "T0") == "T0") {
				J copy = op; World *ww = w;
				w->S.at(w->T0 + (uint64_t)op.geti("t"), [ww, copy]() { ww->do_op(copy); });
			}
			uint64_t end = w->T0 + w->dur_after_T0;
			if (end < w->S.tmax) w->S.tmax = end;
			if (w->on_T0) w->on_T0();
		}
	}
	void on_exit(Task &t) override
	{
		// once every client is gone nothing more can happen: stop a second later
		bool any = false;
		for (auto &x : w->clients) if (x.task->state != T_EXITED) any = true;
		if (!any && !w->clients.empty() && !w->cfg.getb("keep_running")) { uint64_t end = w->S.now + 1000000; if (end < w->S.tmax) w->S.tmax = end; }
		(void)t;
	}
};
Monitor *mk_world_tracker(World *w) { return new WorldTracker(w); }
