// Simulator kernel: virtual clock, event heap, fibers, path model.
#include "sim.h"
#include "ref.h"
#include <stdarg.h>
#include <stdio.h>
#include <stdlib.h>
#include <unistd.h>
#include <fcntl.h>
#include <errno.h>
#include <sys/mman.h>
#include <arpa/inet.h>
#include <algorithm>

Sim *g_sim = nullptr;
char *g_curtask_shm = nullptr;   // shared page: name of the task currently running (for crash attribution)

#if defined(__has_feature)
#if __has_feature(address_sanitizer)
#define SIM_ASAN 1
#endif
#endif
#ifdef SIM_ASAN
extern "C" {
void __sanitizer_start_switch_fiber(void **fake_stack_save, const void *bottom, size_t size);
void __sanitizer_finish_switch_fiber(void *fake_stack_save, const void **bottom_old, size_t *size_old);
}
#else
static inline void __sanitizer_start_switch_fiber(void **, const void *, size_t) {}
static inline void __sanitizer_finish_switch_fiber(void *, const void **, size_t *) {}
#endif

// ------------------------------------------------------------------ helpers
uint64_t fnv1a(const void *p, size_t n, uint64_t h)
{
	const uint8_t *b = (const uint8_t *)p;
	for (size_t i = 0; i < n; i++) { h ^= b[i]; h *= 1099511628211ull; }
	return h;
}
uint64_t splitmix64(uint64_t x)
{
	x += 0x9e3779b97f4a7c15ull;
	x = (x ^ (x >> 30)) * 0xbf58476d1ce4e5b9ull;
	x = (x ^ (x >> 27)) * 0x94d049bb133111ebull;
	return x ^ (x >> 31);
}
std::string hexs(const void *p, size_t n)
{
	static const char *d = "0123456789abcdef";
	std::string s; s.reserve(n * 2);
	const uint8_t *b = (const uint8_t *)p;
	for (size_t i = 0; i < n; i++) { s += d[b[i] >> 4]; s += d[b[i] & 15]; }
	return s;
}
std::string hexs(const Bytes &b, size_t max)
{
	size_t n = (max && b.size() > max) ? max : b.size();
	std::string s = hexs(b.data(), n);
	if (n < b.size()) s += "..";
	return s;
}
Bytes unhex(const std::string &s)
{
	Bytes b;
	auto v = [](char c) { return c <= '9' ? c - '0' : (c | 32) - 'a' + 10; };
	for (size_t i = 0; i + 1 < s.size(); i += 2) b.push_back((uint8_t)((v(s[i]) << 4) | v(s[i + 1])));
	return b;
}

// ------------------------------------------------------------------ Addr
bool Addr::is_any() const
{
	size_t n = fam == AF_INET6 ? 16 : 4;
	for (size_t i = 0; i < n; i++) if (a[i]) return false;
	return true;
}
bool Addr::same_ip(const Addr &o) const
{
	if (fam != o.fam) return false;
	return memcmp(a, o.a, fam == AF_INET6 ? 16 : 4) == 0;
}
std::string Addr::str() const
{
	char buf[80] = "?", out[100];
	if (fam == AF_INET) inet_ntop(AF_INET, a, buf, sizeof buf);
	else if (fam == AF_INET6) inet_ntop(AF_INET6, a, buf, sizeof buf);
	snprintf(out, sizeof out, fam == AF_INET6 ? "[%s]:%u" : "%s:%u", buf, port);
	return out;
}
Addr Addr::v4(const char *dotted, uint16_t port)
{
	Addr r; r.fam = AF_INET; r.port = port;
	inet_pton(AF_INET, dotted, r.a);
	return r;
}
Addr Addr::v4(uint32_t h, uint16_t port)
{
	Addr r; r.fam = AF_INET; r.port = port;
	r.a[0] = h >> 24; r.a[1] = h >> 16; r.a[2] = h >> 8; r.a[3] = h;
	return r;
}
Addr Addr::v6(const char *txt, uint16_t port)
{
	Addr r; r.fam = AF_INET6; r.port = port;
	inet_pton(AF_INET6, txt, r.a);
	return r;
}
uint32_t Addr::v4_hostorder() const { return ((uint32_t)a[0] << 24) | (a[1] << 16) | (a[2] << 8) | a[3]; }
Addr Addr::from_sockaddr(const struct sockaddr *sa, socklen_t len)
{
	Addr r;
	if (!sa || len < sizeof(sa_family_t)) return r;
	if (sa->sa_family == AF_INET && len >= sizeof(struct sockaddr_in)) {
		const struct sockaddr_in *s = (const struct sockaddr_in *)sa;
		r.fam = AF_INET; memcpy(r.a, &s->sin_addr, 4); r.port = ntohs(s->sin_port);
	} else if (sa->sa_family == AF_INET6 && len >= sizeof(struct sockaddr_in6)) {
		const struct sockaddr_in6 *s = (const struct sockaddr_in6 *)sa;
		r.fam = AF_INET6; memcpy(r.a, &s->sin6_addr, 16); r.port = ntohs(s->sin6_port);
	}
	return r;
}
socklen_t Addr::to_sockaddr(struct sockaddr_storage *ss) const
{
	memset(ss, 0, sizeof *ss);
	if (fam == AF_INET6) {
		struct sockaddr_in6 *s = (struct sockaddr_in6 *)ss;
		s->sin6_family = AF_INET6; memcpy(&s->sin6_addr, a, 16); s->sin6_port = htons(port);
		return sizeof *s;
	}
	struct sockaddr_in *s = (struct sockaddr_in *)ss;
	s->sin_family = AF_INET; memcpy(&s->sin_addr, a, 4); s->sin_port = htons(port);
	return sizeof *s;
}

// ------------------------------------------------------------------ Sim basics
uint64_t Sim::D(const char *stream, uint64_t key) const
{
	uint64_t h = fnv1a(stream, strlen(stream));
	return splitmix64(splitmix64(seed ^ h) ^ (key * 0x9e3779b97f4a7c15ull + 0x1234567));
}

void Sim::fp_mix(const void *p, size_t n) { fp = fnv1a(p, n, fp); }

void Sim::tracef(const char *fmt, ...)
{
	if (!trace) return;
	va_list ap; va_start(ap, fmt);
	fprintf(trace, "%10.6f ", now / 1e6);
	vfprintf(trace, fmt, ap);
	fputc('\n', trace);
	va_end(ap);
}

void Sim::violate(const std::string &prop, const std::string &clause, const std::string &detail)
{
	// keep the first few per (prop, clause)
	int n = 0;
	for (auto &v : violations) if (v.prop == prop && v.clause == clause) n++;
	if (n < 3) violations.push_back({prop, clause, detail});
	tracef("VIOLATION %s %s %s", prop.c_str(), clause.c_str(), detail.c_str());
}

int Sim::add_host(const std::string &name, const char *ip4, const char *ip6)
{
	Host h; h.id = hosts.size(); h.name = name;
	if (ip4) h.ip4 = Addr::v4(ip4, 0);
	if (ip6) h.ip6 = Addr::v6(ip6, 0);
	hosts.push_back(h);
	return h.id;
}
Host *Sim::host_by_name(const std::string &n) { for (auto &h : hosts) if (h.name == n) return &h; return nullptr; }
Task *Sim::task_by_name(const std::string &n) { for (auto &t : tasks) if (t->name == n) return t.get(); return nullptr; }
Tun *Sim::tun_of(Task *t) { for (auto &p : tuns) if (p.second->owner == t) return p.second.get(); return nullptr; }

static int g_devnull = -1;
int Sim::alloc_fd()
{
	if (g_devnull < 0) g_devnull = ::open("/dev/null", O_RDWR | O_CLOEXEC);
	int fd = fcntl(g_devnull, F_DUPFD_CLOEXEC, 10);
	return fd;
}
void Sim::free_fd(int fd) { ::close(fd); }

void Sim::at(uint64_t t, std::function<void()> fn)
{
	if (t < now) t = now;
	heap.push_back(Event{t, ++seq, std::move(fn)});
	std::push_heap(heap.begin(), heap.end(), EventCmp());
}

// ------------------------------------------------------------------ fibers
static void fiber_entry()
{
	Sim *S = g_sim;
	Task *t = S->cur;
	__sanitizer_finish_switch_fiber(nullptr, &S->sched_stack, &S->sched_stack_size);
	std::vector<char *> argv;
	for (auto &a : t->args) argv.push_back(strdup(a.c_str()));
	argv.push_back(nullptr);
	extern int optind;
	optind = 0;
	int rc = t->mainfn((int)t->args.size(), argv.data());
	S->task_exit(rc, false);
}

Task *Sim::add_proc(const std::string &name, int host, int (*mainfn)(int, char **), std::vector<std::string> args, uint64_t start_at)
{
	auto t = std::make_unique<Task>();
	t->id = tasks.size(); t->name = name; t->host = host; t->mainfn = mainfn; t->args = std::move(args);
	t->start_at = start_at;
	t->stack_size = 8u << 20;
	t->stack = mmap(nullptr, t->stack_size, PROT_READ | PROT_WRITE, MAP_PRIVATE | MAP_ANONYMOUS | MAP_NORESERVE, -1, 0);
	t->rand_key = splitmix64(seed ^ fnv1a(name.data(), name.size()));
	getcontext(&t->ctx);
	t->ctx.uc_stack.ss_sp = t->stack;
	t->ctx.uc_stack.ss_size = t->stack_size;
	t->ctx.uc_link = nullptr;
	makecontext(&t->ctx, fiber_entry, 0);
	Task *raw = t.get();
	tasks.push_back(std::move(t));
	at(start_at, [this, raw]() { if (raw->state == T_NEW) raw->state = T_RUNNABLE; });
	return raw;
}

void Sim::resume(Task *t)
{
	cur = t;
	t->state = T_RUNNABLE;
	if (g_curtask_shm) { strncpy(g_curtask_shm, t->name.c_str(), 31); g_curtask_shm[31] = 0; }
	void *fake = nullptr;
	__sanitizer_start_switch_fiber(&fake, t->stack, t->stack_size);
	swapcontext(&sched_ctx, &t->ctx);
	__sanitizer_finish_switch_fiber(fake, nullptr, nullptr);
	cur = nullptr;
	if (g_curtask_shm) g_curtask_shm[0] = 0;
}

// called on a fiber: give control back to the scheduler until woken
void Sim::yield_block()
{
	Task *t = cur;
	for (auto m : monitors) m->on_block(*t);
	void *fake = nullptr;
	__sanitizer_start_switch_fiber(&fake, sched_stack, sched_stack_size);
	swapcontext(&t->ctx, &sched_ctx);
	__sanitizer_finish_switch_fiber(fake, &sched_stack, &sched_stack_size);
}

void Sim::task_exit(int code, bool by_exit)
{
	Task *t = cur;
	t->state = T_EXITED; t->exit_code = code; t->exited_by_exit = by_exit; t->t_exit = now;
	tracef("EXIT %s code=%d", t->name.c_str(), code);
	fp_mix_str("exit:" + t->name); fp_mix_u64((uint64_t)code);
	// close its descriptors
	std::vector<int> fds;
	for (auto &p : socks) if (p.second->owner == t) fds.push_back(p.first);
	for (int fd : fds) { socks.erase(fd); free_fd(fd); }
	fds.clear();
	for (auto &p : tuns) if (p.second->owner == t) fds.push_back(p.first);
	for (int fd : fds) { tuns.erase(fd); free_fd(fd); }
	for (auto m : monitors) m->on_exit(*t);
	void *fake = nullptr;
	__sanitizer_start_switch_fiber(nullptr, sched_stack, sched_stack_size);
	(void)fake;
	swapcontext(&t->ctx, &sched_ctx);
	abort(); // never resumed
}

bool Sim::sel_ready(Task *t, bool fill)
{
	int n = 0;
	fd_set out; FD_ZERO(&out);
	if (t->sel_r) {
		for (int fd = 0; fd < t->sel_nfds; fd++) {
			if (!FD_ISSET(fd, t->sel_r)) continue;
			auto s = socks.find(fd);
			if (s != socks.end()) { if (!s->second->rx.empty()) { FD_SET(fd, &out); n++; } continue; }
			auto u = tuns.find(fd);
			if (u != tuns.end()) { if (!u->second->inq.empty()) { FD_SET(fd, &out); n++; } continue; }
		}
	}
	if (fill) { if (t->sel_r) *t->sel_r = out; t->sel_result = n; }
	return n > 0;
}

void Sim::drain()
{
	bool progress = true;
	while (progress && !capped) {
		progress = false;
		for (size_t i = 0; i < tasks.size(); i++) {
			Task *t = tasks[i].get();
			if (t->state == T_EXITED || t->state == T_NEW) continue;
			if (t->stall_until > now) continue;
			bool go = false;
			if (t->state == T_RUNNABLE) go = true;
			else if (t->state == T_SELECT) {
				if (t->interrupted) go = true;
				else if (sel_ready(t, false)) go = true;
				else if (t->deadline <= now) go = true;
			} else if (t->state == T_SLEEP) {
				if (t->deadline <= now || t->interrupted) go = true;
			}
			if (!go) continue;
			if (++nevents > max_events) { capped = true; count("cap.events"); return; }
			resume(t);
			progress = true;
		}
	}
}

void Sim::run()
{
	while (!heap.empty() && !capped) {
		std::pop_heap(heap.begin(), heap.end(), EventCmp());
		Event ev = std::move(heap.back());
		heap.pop_back();
		if (ev.t > tmax) { now = tmax; break; }
		now = ev.t;
		if (++nevents > max_events) { capped = true; count("cap.events"); break; }
		ev.fn();
		drain();
	}
	for (auto m : monitors) m->on_end();
}

void Sim::signal_task(Task *t, int sig)
{
	if (!t || t->state == T_EXITED) return;
	tracef("SIGNAL %s %d", t->name.c_str(), sig);
	count("fault.signal");
	if (sig >= 0 && sig < 32 && t->sig_handlers[sig]) t->sig_handlers[sig](sig);
	t->interrupted = true;
}

void Sim::offer_tun(Task *t, const Bytes &pkt)
{
	Tun *u = tun_of(t);
	if (!u) { count("tun.offer.nodev"); return; }
	if (u->inq.size() >= 64) { count("tun.offer.qfull"); return; }
	u->inq.push_back(pkt);
}

// ------------------------------------------------------------------ network
int Sim::stream_of(int sh, int dh)
{
	auto k = std::make_pair(sh, dh);
	auto it = stream_ids.find(k);
	if (it != stream_ids.end()) return it->second;
	int id = stream_next.size();
	stream_ids[k] = id; stream_next.push_back(0); stream_hosts.push_back(k);
	return id;
}

Sock *Sim::model_socket(int host, int fam, uint16_t port, std::function<void(const Dgram &)> on_rx)
{
	auto s = std::make_unique<Sock>();
	s->fd = alloc_fd(); s->host = host; s->fam = fam; s->bound = true;
	s->local = fam == AF_INET6 ? hosts[host].ip6 : hosts[host].ip4;
	s->local.port = port;
	s->on_rx = std::move(on_rx);
	Sock *raw = s.get();
	socks[raw->fd] = std::move(s);
	return raw;
}

// find the socket a datagram to dst would reach
Sock *Sim::sock_for(const Addr &dst, int from_host)
{
	bool loop = dst.fam == AF_INET && dst.a[0] == 127;
	for (auto &p : socks) {
		Sock *s = p.second.get();
		if (!s->bound || s->fam != dst.fam || s->local.port != dst.port) continue;
		if (loop) { if (s->host == from_host) return s; continue; }
		if (!s->local.is_any()) { if (s->local.same_ip(dst)) return s; continue; }
		const Host &h = hosts[s->host];
		if (dst.fam == AF_INET && h.ip4.fam && h.ip4.same_ip(dst)) return s;
		if (dst.fam == AF_INET6 && h.ip6.fam && h.ip6.same_ip(dst)) return s;
	}
	return nullptr;
}

// re-case the letters of the question name of a DNS query (0x20-style), keyed
void recase_qname(Bytes &d, uint64_t key)
{
	if (d.size() < 13) return;
	size_t o = 12; int guard = 0;
	while (o < d.size() && d[o] && guard++ < 128) {
		if (d[o] & 0xc0) break;
		size_t l = d[o];
		for (size_t i = 1; i <= l && o + i < d.size(); i++) {
			uint8_t &c = d[o + i];
			bool up = (splitmix64(key ^ (o + i) * 0x9e3779b97f4a7c15ull) >> 17) & 1;
			if (c >= 'a' && c <= 'z' && up) c = (uint8_t)(c - 32);
			else if (c >= 'A' && c <= 'Z' && !up) c = (uint8_t)(c + 32);
		}
		o += l + 1;
	}
}

static Fate gen_fate(Sim *S, int stream, uint64_t ord, uint64_t now, const Dgram &d)
{
	Fate f;
	const FaultCfg &c = S->faults;
	if (c.dr1 > c.dr0 && now >= c.dr0 && now < c.dr1 && d.src_host == c.dr_host) { f.drop = true; S->count("fault.drought_drop"); return f; }
	uint64_t key = ((uint64_t)stream << 40) ^ ord;
	if (c.rawlate && d.data.size() >= 4 && d.data[0] == 0x10 && d.data[1] == 0xd1 && d.data[2] == 0x9e) {
		if (d.src.port == 53) { f.drop = true; S->count("fault.rawlate.reply_dropped"); return f; }
		if ((d.data[3] >> 4) == 1) { f.dup = 1 + (int)(S->D("fate.rawlate.n", key) % 2); f.dup_delay = S->R("fate.rawlate.d", key, c.rawlate_min, c.rawlate_max); S->count("fault.rawlate.login_copy", f.dup); return f; }
	}
	if (!c.enabled() || now < c.t0 || now >= c.t1) return f;
	if (c.p_redeliv > 0 && d.dst.port == 53 && d.data.size() > 12 && !(d.data[2] & 0x80) && S->U("fate.rd", key) < c.p_redeliv) {
		int n = 1 + (int)(S->D("fate.rdn", key) % 3);
		if (S->U("fate.rdmany", key) < 0.08) n += 5;     // an impatient relay hammering
		for (int i = 0; i < n; i++) {
			uint64_t k2 = key * 131 + i;
			Redeliv r;
			uint64_t md = c.rd_max_delay ? c.rd_max_delay : 1000000;
			switch (S->D("fate.rdk", k2) % 4) { case 0: r.delay = S->R("fate.rdd", k2, 1, 2000); break; case 1: r.delay = S->R("fate.rdd", k2, 2000, 100000); break; default: r.delay = S->R("fate.rdd", k2, 1, md); }
			if (S->U("fate.rdid", k2) < c.p_rd_newid) r.idxor = (uint16_t)(1 + S->D("fate.rdidv", k2) % 65535);
			if (S->U("fate.rdcase", k2) < c.p_rd_recase) r.recase = (S->D("fate.rdcasek", k2) & 0x7fffffffffffull) | 1;
			if (S->U("fate.rdsrc", k2) < c.p_rd_altsrc) r.altsrc = true;
			else if (c.p_rd_altport > 0 && S->U("fate.rdport", k2) < c.p_rd_altport) r.altport = true;
			if (S->U("fate.rdtype", k2) < c.p_rd_retype) { static const uint16_t ty[] = {10, 16, 5, 15, 33, 1, 65399}; r.retype = ty[S->D("fate.rdtypev", k2) % 7]; }
			f.redeliv.push_back(r);
			// the relay repeats its copy once more, byte for byte (same id, same spelling, same address)
			if (c.p_rd_again > 0 && S->U("fate.rdagain", k2) < c.p_rd_again) { Redeliv r2 = r; r2.delay = r.delay + S->R("fate.rdagaind", k2, 500, 600000); f.redeliv.push_back(r2); S->count("fault.redeliver.copy_repeated"); }
		}
	}
	if (c.hold_cmd && d.data.size() > 14 && (d.data[13] | 0x20) == c.hold_cmd && (d.dst.port == 53 || d.src.port == 53)) {
		bool ans = d.data[2] & 0x80;
		if (c.hold_dir == 2 || (c.hold_dir == 1) == ans) {
			f.extra_delay = c.hold_delay + S->R("fate.holdj", key, 0, 200000); S->count("fault.hold_cmd");
			if (S->U("fate.dup", key) < c.p_dup) { f.dup = 1; f.dup_delay = S->R("fate.dupd", key, 0, 3000000); }
			return f;
		}
	}
	if (S->U("fate.drop", key) < c.p_drop) { f.drop = true; return f; }
	if (S->U("fate.dup", key) < c.p_dup) { f.dup = 1 + (int)(S->D("fate.dupn", key) % 2); f.dup_delay = S->R("fate.dupd", key, 0, c.max_delay); }
	if (S->U("fate.delay", key) < c.p_delay) f.extra_delay = S->R("fate.delayd", key, 1, c.max_delay ? c.max_delay : 1);
	if (S->U("fate.trunc", key) < c.p_trunc) f.trunc = (int)S->R("fate.truncn", key, 0, 600);
	if (S->U("fate.flip", key) < c.p_flip) f.flipbit = (int)S->R("fate.flipn", key, 0, 4095);
	return f;
}

void Sim::deliver(Dgram d)
{
	Sock *s = sock_for(d.dst, d.src_host);
	if (!s) { count("net.unroutable"); tracef("LOST %s -> %s len=%zu (no socket)", d.src.str().c_str(), d.dst.str().c_str(), d.data.size()); return; }
	if (trace) tracef("DELIVER %s -> %s len=%zu%s %s", d.src.str().c_str(), d.dst.str().c_str(), d.data.size(), d.redelivery ? " REDELIVERY" : "", trace_decode ? trace_decode(d.data).c_str() : "");
	for (auto m : monitors) m->on_deliver(d, s);
	if (s->on_rx) { s->on_rx(d); return; }
	if (s->rx.size() >= 2048) { s->rx_dropped++; count("net.rxq.full"); return; }
	if (decoy_variant && s->owner && s->owner->is_server && !d.decoy && !(d.src.fam == AF_INET && d.src.a[0] == 127)) {
		Dgram q;
		q.decoy = true; q.dst = d.dst; q.src = Addr::v4("10.9.9.9", 9999); q.src_host = -1; q.serial = 0;
		Bytes &b = q.data;
		uint16_t id = (uint16_t)(1 + D("decoy.id", dgram_serial + nevents) % 65535);
		b.push_back(id >> 8); b.push_back(id & 255); b.push_back(1); b.push_back(0);
		b.push_back(0); b.push_back(1); b.push_back(0); b.push_back(0); b.push_back(0); b.push_back(0); b.push_back(0); b.push_back(0);
		if (decoy_variant == 2 && !decoy_prev_name.empty()) b.insert(b.end(), decoy_prev_name.begin(), decoy_prev_name.end());
		else { static const char *lab = "decoyfillerdecoyfillerdecoyfiller"; for (int i = 0; i < 3; i++) { b.push_back(33); b.insert(b.end(), lab, lab + 33); } }
		static const char tld[] = "\007invalid";
		b.insert(b.end(), tld, tld + 8); b.push_back(0);
		b.push_back(0); b.push_back(16); b.push_back(0); b.push_back(1);
		count("fault.decoy");
		s->rx.push_back(std::move(q));
		// remember the name of this (real) query for the next decoy
		if (d.data.size() > 17 && !(d.data[2] & 0x80)) {
			size_t o = 12; Bytes nm; int guard = 0;
			while (o < d.data.size() && d.data[o] && !(d.data[o] & 0xc0) && o + 1 + d.data[o] <= d.data.size() && nm.size() + d.data[o] + 1 < 200 && guard++ < 64) {
				// only labels of plain printable characters: a NUL or a dot inside a label would change what the C string looks like
				bool plain = true;
				for (size_t i = 1; i <= d.data[o]; i++) { uint8_t c = d.data[o + i]; if (c <= 0x20 || c == '.' || c == 0x7f) plain = false; }
				if (!plain) break;
				nm.insert(nm.end(), d.data.begin() + o, d.data.begin() + o + 1 + d.data[o]); o += 1 + d.data[o];
			}
			if (!nm.empty()) decoy_prev_name = nm;
		}
	}
	s->rx.push_back(std::move(d));
}

static void route(Sim *S, Dgram d)
{
	if (!S->rd_altmap.empty() && d.src.port == 53) {
		auto it = S->rd_altmap.find(d.dst.str());
		if (it != S->rd_altmap.end()) { d.dst = it->second; S->count("relay.altsrc_answer_passed_on"); }
	}
	int dh = -1;
	bool loop = d.dst.fam == AF_INET && d.dst.a[0] == 127;
	if (loop) dh = d.src_host;
	else for (auto &h : S->hosts) {
		if (d.dst.fam == AF_INET && h.ip4.fam && h.ip4.same_ip(d.dst)) dh = h.id;
		if (d.dst.fam == AF_INET6 && h.ip6.fam && h.ip6.same_ip(d.dst)) dh = h.id;
	}
	if (!S->rd_idmap.empty() && d.src.port == 53 && d.data.size() >= 3 && (d.data[2] & 0x80)) {
		auto it = S->rd_idmap.find({d.dst.str(), (uint16_t)((d.data[0] << 8) | d.data[1])});
		if (it != S->rd_idmap.end()) { d.data[0] = it->second >> 8; d.data[1] = it->second & 255; S->count("relay.id_restored"); }
	}
	d.stream = S->stream_of(d.src_host, dh);
	d.ordinal = S->stream_next[d.stream]++;
	d.t_sent = S->now;
	uint64_t lat = S->default_latency;
	auto li = S->latency.find({d.src_host, dh});
	if (li != S->latency.end()) lat = li->second;
	if (loop) lat = 50;

	Fate f;
	auto key = std::make_pair(d.stream, d.ordinal);
	bool listed = false;
	if (!S->named_fates.empty()) {
		std::string nk = (d.src_host >= 0 ? S->hosts[d.src_host].name : "#" + std::to_string(d.src_host)) + ">" + (dh >= 0 ? S->hosts[dh].name : "#" + std::to_string(dh)) + "#" + std::to_string(d.ordinal);
		auto it = S->named_fates.find(nk);
		if (it != S->named_fates.end()) { f = it->second; listed = true; }
	}
	if (S->explicit_fates || listed) { }
	else {
		auto it = S->fates.find(key);
		if (it != S->fates.end()) f = it->second;
		else { f = gen_fate(S, d.stream, d.ordinal, S->now, d); if (S->gen_mutator) S->gen_mutator(d, f); }
	}
	if (f.has_replace) { d.data = f.replace; S->count("fault.replace"); }
	if (f.synth_size > 0) {
		DnsMsg m;
		if (dns_parse_strict(d.data, m).empty() && m.qd.size() == 1) {
			Bytes pl((size_t)f.synth_size + 2);
			pl[0] = 0x80; pl[1] = (uint8_t)(((f.synth_seq & 7) << 5) | ((f.synth_frag & 15) << 1) | (f.synth_last & 1));
			for (size_t i = 2; i < pl.size(); i++) pl[i] = (uint8_t)(splitmix64(f.synth_key + i / 8) >> (8 * (i % 8)));
			d.data = build_answer(m.id, m.qd[0].name.dotted(), m.qd[0].type, pl, f.synth_enc);
			S->count("fault.synth_fragment");
		}
	}
	if (!f.is_default()) { S->fired.push_back({key, f}); if (S->on_fired) S->on_fired(key, f); }
	S->fp_mix_u64(d.stream); S->fp_mix_u64(d.ordinal);
	if (f.drop) { S->count("fault.drop"); S->tracef("FATE drop s%d#%llu", d.stream, (unsigned long long)d.ordinal); return; }
	if (f.trunc >= 0 && (size_t)f.trunc < d.data.size()) { d.data.resize(f.trunc); S->count("fault.trunc"); }
	if (f.flipbit >= 0 && !d.data.empty()) { size_t bit = (size_t)f.flipbit % (d.data.size() * 8); d.data[bit / 8] ^= (uint8_t)(1u << (bit % 8)); S->count("fault.flip"); }
	if (f.extra_delay) S->count("fault.delay");
	if (S->path_filter && !loop) { if (!S->path_filter(d)) { S->count("path.filtered"); return; } }
	uint64_t t = S->now + lat + f.extra_delay;
	for (int i = 0; i <= f.dup; i++) {
		if (i) S->count("fault.dup");
		Dgram c = d;
		S->at(t + (uint64_t)i * (f.dup_delay + 1), [S, c]() { S->deliver(c); });
	}
	for (auto &r : f.redeliv) {
		Dgram c = d;
		c.redelivery = true;
		if (r.idxor && c.data.size() >= 2) {
			uint16_t oid = (uint16_t)((c.data[0] << 8) | c.data[1]), id = (uint16_t)(oid ^ r.idxor); if (!id) id = 1;
			c.data[0] = id >> 8; c.data[1] = id & 255; S->count("fault.redeliver.newid");
			S->rd_idmap[{c.src.str(), id}] = oid;
			if (S->rd_idmap.size() > 2000) S->rd_idmap.erase(S->rd_idmap.begin());
		}
		if (r.recase) { recase_qname(c.data, r.recase); S->count("fault.redeliver.recase"); }
		if (r.retype && c.data.size() > 17) {
			size_t o = 12; int guard = 0;
			while (o < c.data.size() && c.data[o] && !(c.data[o] & 0xc0) && guard++ < 128) o += c.data[o] + 1;
			if (o + 5 <= c.data.size() && !c.data[o]) { uint16_t old = (uint16_t)((c.data[o + 1] << 8) | c.data[o + 2]); if (old != r.retype) { c.data[o + 1] = r.retype >> 8; c.data[o + 2] = r.retype & 255; c.retyped = true; S->count("fault.redeliver.retype"); } }
		}
		if (r.altsrc) { Addr orig = c.src; if (c.src.fam == AF_INET) { c.src.a[2] ^= 0x40; c.src.a[3] ^= 0x15; } else c.src.a[15] ^= 0x15; S->rd_altmap[c.src.str()] = orig; S->count("fault.redeliver.altsrc"); }
		if (r.altport) { Addr orig = c.src; c.src.port = (uint16_t)(c.src.port ^ 0x2aaa); if (c.src.port < 1024) c.src.port = (uint16_t)(c.src.port + 20000); S->rd_altmap[c.src.str()] = orig; S->count("fault.redeliver.altport"); }
		S->count("fault.redeliver");
		S->at(t + r.delay, [S, c]() { if (S->redeliver_gate && !S->redeliver_gate(c)) { S->count("fault.redeliver.outside_window"); return; } S->deliver(c); });
	}
}

void Sim::send_from(Sock *s, const Addr &dst, const Bytes &data)
{
	Dgram d;
	d.dst = dst; d.data = data; d.src_host = s->host; d.serial = ++dgram_serial;
	d.src = s->local;
	if (d.src.is_any() || d.src.fam != dst.fam || (dst.fam == AF_INET && dst.a[0] == 127)) {
		const Host &h = hosts[s->host];
		Addr a = dst.fam == AF_INET6 ? h.ip6 : h.ip4;
		if (dst.fam == AF_INET && dst.a[0] == 127) a = Addr::v4("127.0.0.1", 0);
		a.port = s->local.port;
		d.src = a;
	}
	if (trace) tracef("SEND %s -> %s len=%zu %s", d.src.str().c_str(), dst.str().c_str(), data.size(), trace_decode ? trace_decode(data).c_str() : hexs(data, 24).c_str());
	fp_mix_str("send"); fp_mix_u64(s->host); fp_mix_u64(dst.port); fp_mix(dst.a, 16); fp_mix(data.data(), data.size());
	for (auto m : monitors) m->on_send(d, s);
	route(this, std::move(d));
}

void Sim::inject(const Addr &src, int src_host, const Addr &dst, const Bytes &data)
{
	Dgram d;
	d.src = src; d.dst = dst; d.data = data; d.src_host = src_host; d.serial = ++dgram_serial;
	tracef("INJECT %s -> %s len=%zu %s", src.str().c_str(), dst.str().c_str(), data.size(), hexs(data, 24).c_str());
	fp_mix_str("inject"); fp_mix(data.data(), data.size());
	for (auto m : monitors) m->on_send(d, nullptr);
	route(this, std::move(d));
}
