// libc seam: every function here replaces the same-named libc function for the
// objects compiled from /repo/src (and for the harness itself) through
// -Wl,--wrap=<name>.  Outside a simulated task the real function is called.
#ifdef IOSIM_VG
#include <valgrind/memcheck.h>
#define VG_OUTPUT_DEFINED(buf, len) do { if ((len) > 0) (void)VALGRIND_CHECK_MEM_IS_DEFINED((buf), (len)); } while (0)
#else
#define VG_OUTPUT_DEFINED(buf, len) do { } while (0)
#endif
#include "sim.h"
#include <stdarg.h>
#include <stdio.h>
#include <stdlib.h>
#include <unistd.h>
#include <errno.h>
#include <fcntl.h>
#include <signal.h>
#include <netdb.h>
#include <time.h>
#include <sys/ioctl.h>
#include <sys/select.h>
#include <sys/uio.h>
#include <net/if.h>
#include <linux/if_tun.h>
#include <arpa/inet.h>

#define S g_sim
static inline bool in_task() { return S && S->cur; }

extern "C" {

int __real_select(int, fd_set *, fd_set *, fd_set *, struct timeval *);
ssize_t __real_sendto(int, const void *, size_t, int, const struct sockaddr *, socklen_t);
ssize_t __real_recvfrom(int, void *, size_t, int, struct sockaddr *, socklen_t *);
ssize_t __real_recvmsg(int, struct msghdr *, int);
ssize_t __real_recv(int, void *, size_t, int);
int __real_socket(int, int, int);
int __real_bind(int, const struct sockaddr *, socklen_t);
int __real_setsockopt(int, int, int, const void *, socklen_t);
int __real_fcntl(int, int, ...);
int __real_close(int);
int __real_open(const char *, int, ...);
int __real_ioctl(int, unsigned long, ...);
ssize_t __real_read(int, void *, size_t);
ssize_t __real_write(int, const void *, size_t);
time_t __real_time(time_t *);
unsigned __real_sleep(unsigned);
int __real_rand(void);
void __real_srand(unsigned);
int __real_system(const char *);
void __real_exit(int) __attribute__((noreturn));
uid_t __real_geteuid(void);
int __real_getaddrinfo(const char *, const char *, const struct addrinfo *, struct addrinfo **);
void __real_freeaddrinfo(struct addrinfo *);
sighandler_t __real_signal(int, sighandler_t);

// ------------------------------------------------------------------ time
time_t __wrap_time(time_t *t)
{
	if (!in_task()) return __real_time(t);
	time_t v = (time_t)S->time_s();
	if (t) *t = v;
	return v;
}

static void block_until(Task *t, TaskState st, uint64_t deadline)
{
	t->state = st;
	t->deadline = deadline;
	t->interrupted = false;
	if (deadline != UINT64_MAX) {
		Sim *sim = S;
		sim->at(deadline, []() {});     // wake-up tick; drain() checks deadlines
	}
	S->yield_block();
}

unsigned __wrap_sleep(unsigned n)
{
	if (!in_task()) return __real_sleep(n);
	Task *t = S->cur;
	S->tracef("SLEEP %s %u", t->name.c_str(), n);
	block_until(t, T_SLEEP, S->now + (uint64_t)n * 1000000);
	return 0;
}

int __wrap_select(int nfds, fd_set *r, fd_set *w, fd_set *e, struct timeval *tv)
{
	if (!in_task()) return __real_select(nfds, r, w, e, tv);
	Task *t = S->cur;
	t->n_select++;
	t->sel_r = r; t->sel_nfds = nfds;
	uint64_t dl = UINT64_MAX;
	if (tv) dl = S->now + (uint64_t)tv->tv_sec * 1000000 + (uint64_t)tv->tv_usec;
	if (w) FD_ZERO(w);
	if (e) FD_ZERO(e);
	block_until(t, T_SELECT, dl);
	// woken
	if (t->interrupted) {
		t->interrupted = false;
		if (r) FD_ZERO(r);
		errno = EINTR;
		t->sel_r = nullptr;
		return -1;
	}
	S->sel_ready(t, true);
	int n = t->sel_result;
	t->sel_r = nullptr;
	S->fp_mix_str("sel:" + t->name); S->fp_mix_u64(S->now); S->fp_mix_u64(n);
	return n;
}

// ------------------------------------------------------------------ rand
int __wrap_rand(void)
{
	if (!in_task()) return __real_rand();
	Task *t = S->cur;
	uint64_t n = t->rand_ctr++;
	auto it = t->rand_pin.find(n);
	if (it != t->rand_pin.end()) return it->second;
	uint64_t v = splitmix64(t->rand_key ^ (n * 0x9e3779b97f4a7c15ull));
	if (((v >> 40) & 63) == 42) return RAND_MAX;          // rand() may return RAND_MAX (= INT_MAX with glibc): one call in 64 does here
	if (((v >> 40) & 63) == 43) return 0;
	return (int)(v & 0x7fffffff);
}
void __wrap_srand(unsigned s)
{
	if (!in_task()) { __real_srand(s); return; }
	// the seed value (time) is already a function of the plan; keep the keyed stream
	(void)s;
}

// ------------------------------------------------------------------ sockets
static Sock *sock_of(int fd) { if (!S) return nullptr; auto it = S->socks.find(fd); return it == S->socks.end() ? nullptr : it->second.get(); }
static Tun *tun_ofd(int fd) { if (!S) return nullptr; auto it = S->tuns.find(fd); return it == S->tuns.end() ? nullptr : it->second.get(); }

int __wrap_socket(int domain, int type, int proto)
{
	if (!in_task()) return __real_socket(domain, type, proto);
	auto s = std::make_unique<Sock>();
	s->fd = S->alloc_fd(); s->host = S->cur->host; s->owner = S->cur; s->fam = domain;
	int fd = s->fd;
	S->socks[fd] = std::move(s);
	return fd;
}

int __wrap_bind(int fd, const struct sockaddr *sa, socklen_t len)
{
	Sock *s = sock_of(fd);
	if (!s) return __real_bind(fd, sa, len);
	Addr a = Addr::from_sockaddr(sa, len);
	if (!a.fam) { errno = EINVAL; return -1; }
	if (a.port == 0) {
		// ephemeral port: per-host deterministic sequence
		uint64_t base = 20000 + S->D("eph", s->host) % 20000;
		static std::map<int, int> next;   // process lives for exactly one run
		a.port = (uint16_t)(base + next[s->host]++);
	}
	s->local = a; s->bound = true;
	return 0;
}

int __wrap_setsockopt(int fd, int level, int opt, const void *val, socklen_t len)
{
	Sock *s = sock_of(fd);
	if (!s) return __real_setsockopt(fd, level, opt, val, len);
	if (level == IPPROTO_IP && opt == IP_PKTINFO) s->pktinfo4 = true;
	if (level == IPPROTO_IPV6 && (opt == IPV6_RECVPKTINFO || opt == IPV6_PKTINFO)) s->pktinfo6 = true;
	return 0;
}

int __wrap_fcntl(int fd, int cmd, ...)
{
	va_list ap; va_start(ap, cmd);
	long arg = va_arg(ap, long);
	va_end(ap);
	if (sock_of(fd) || tun_ofd(fd)) return 0;
	return __real_fcntl(fd, cmd, arg);
}

int __wrap_close(int fd)
{
	if (S) {
		if (S->socks.count(fd)) { S->socks.erase(fd); S->free_fd(fd); return 0; }
		if (S->tuns.count(fd)) { S->tuns.erase(fd); S->free_fd(fd); return 0; }
		if (in_task() && fd <= 2) return 0;   // close_dns(bind_fd=0) in iodined must not close our stdin
	}
	return __real_close(fd);
}

ssize_t __wrap_sendto(int fd, const void *buf, size_t len, int flags, const struct sockaddr *sa, socklen_t alen)
{
	Sock *s = sock_of(fd);
	if (!s) return __real_sendto(fd, buf, len, flags, sa, alen);
	Addr dst = Addr::from_sockaddr(sa, alen);
	if (!dst.fam) { errno = EDESTADDRREQ; S->count("sendto.noaddr"); return -1; }
	if (len > 65507) { errno = EMSGSIZE; return -1; }
	if (dst.fam != s->fam) { errno = EAFNOSUPPORT; S->count("sendto.eafnosupport"); return -1; }   // as the kernel does for a v4 socket given a sockaddr_in6
	if (!s->bound) {
		struct sockaddr_storage ss; Addr any; any.fam = s->fam;
		socklen_t l = any.to_sockaddr(&ss);
		__wrap_bind(fd, (struct sockaddr *)&ss, l);
	}
	if (s->owner) s->owner->n_sent++;
	VG_OUTPUT_DEFINED(buf, len);      // (memcheck flavour) every byte that leaves a real program must have been written by it
	S->send_from(s, dst, B(buf, len));
	return (ssize_t)len;
}

static void residue_fill(void *buf, size_t cap);
// Hook compiled into /repo only with -DIODINE_VERIF (MANIFEST.hooks): a decode buffer now holds `used` bytes of this call's
// result; the rest is poisoned - with the run's residue pattern (pair runs differ in it, so any dependence on stale decode-buffer
// bytes shows as a behavioural difference, C12) or, in the memcheck flavour, marked undefined.
extern "C" void iodine_verif_tail(void *buf, long used, long cap)
{
	if (!buf || cap <= 0) return;
	if (used < 0) used = 0;
	if (used >= cap) return;
	if (S && S->residue_mode >= 0 && S->poison_tails) { residue_fill((char *)buf + used, (size_t)(cap - used)); S->count("hook.tail_poisoned"); }
#ifdef IOSIM_VG
	(void)VALGRIND_MAKE_MEM_UNDEFINED((char *)buf + used, (size_t)(cap - used));
#endif
}

static void residue_fill(void *buf, size_t cap)
{
	switch (S->residue_mode) {
	case 0: memset(buf, 0, cap); break;
	case 1: memset(buf, 0xff, cap); break;
	case 2: { static const char m[] = "RESIDUE-MARKER-"; for (size_t i = 0; i < cap; i++) ((char *)buf)[i] = m[i % 15]; break; }
	case 3: {
		if (S->residue_prev.empty()) { memset(buf, 0x41, cap); break; }
		for (size_t i = 0; i < cap; i++) ((uint8_t *)buf)[i] = S->residue_prev[i % S->residue_prev.size()];
		break; }
	case 4: { for (size_t i = 0; i < cap; i++) ((uint8_t *)buf)[i] = (uint8_t)(0xc0 | (i & 0x3f)); break; }
	default: memset(buf, 0, cap);
	}
}

static bool pop_dgram(Sock *s, Dgram &d)
{
	if (s->rx.empty()) return false;
	d = std::move(s->rx.front());
	s->rx.pop_front();
	if (s->owner) {
		s->owner->n_recv++;
		for (auto m : S->monitors) m->on_recv(*s->owner, d);
	}
	if (d.decoy) S->fp_mix_str("decoy");       // its content is the variable of the differential: not part of the fingerprint
	else { S->fp_mix_str("recv"); S->fp_mix_u64(s->host); S->fp_mix(d.data.data(), d.data.size()); }
	return true;
}

ssize_t __wrap_recvfrom(int fd, void *buf, size_t cap, int flags, struct sockaddr *sa, socklen_t *alen)
{
	Sock *s = sock_of(fd);
	if (!s) return __real_recvfrom(fd, buf, cap, flags, sa, alen);
	Dgram d;
	residue_fill(buf, cap);
	if (!pop_dgram(s, d)) { errno = EAGAIN; return -1; }
	size_t n = d.data.size() < cap ? d.data.size() : cap;
	if (n) memcpy(buf, d.data.data(), n);
	if (sa && alen) {
		struct sockaddr_storage ss; socklen_t l = d.src.to_sockaddr(&ss);
		if (l > *alen) l = *alen;
		memcpy(sa, &ss, l); *alen = d.src.fam == AF_INET6 ? sizeof(struct sockaddr_in6) : sizeof(struct sockaddr_in);
	}
	S->residue_prev = d.data;
#ifdef IOSIM_VG
	// memcheck flavour: what lies beyond the datagram is nobody's data - a branch or address that depends on it is reported
	if (cap > n) (void)VALGRIND_MAKE_MEM_UNDEFINED((char *)buf + n, cap - n);
#endif
	return (ssize_t)n;
}

ssize_t __wrap_recv(int fd, void *buf, size_t cap, int flags)
{
	Sock *s = sock_of(fd);
	if (!s) return __real_recv(fd, buf, cap, flags);
	return __wrap_recvfrom(fd, buf, cap, flags, nullptr, nullptr);
}

ssize_t __wrap_recvmsg(int fd, struct msghdr *msg, int flags)
{
	Sock *s = sock_of(fd);
	if (!s) return __real_recvmsg(fd, msg, flags);
	void *buf = msg->msg_iovlen ? msg->msg_iov[0].iov_base : nullptr;
	size_t cap = msg->msg_iovlen ? msg->msg_iov[0].iov_len : 0;
	Dgram d;
	if (buf) residue_fill(buf, cap);
	if (!pop_dgram(s, d)) { errno = EAGAIN; return -1; }
	size_t n = d.data.size() < cap ? d.data.size() : cap;
	if (buf && n) memcpy(buf, d.data.data(), n);
	if (msg->msg_name) {
		struct sockaddr_storage ss; socklen_t l = d.src.to_sockaddr(&ss);
		if (l > msg->msg_namelen) l = msg->msg_namelen;
		memcpy(msg->msg_name, &ss, l); msg->msg_namelen = l;
	}
	size_t clen = 0;
	if (msg->msg_control) {
		memset(msg->msg_control, 0, msg->msg_controllen);
		if (d.dst.fam == AF_INET && s->pktinfo4 && msg->msg_controllen >= CMSG_SPACE(sizeof(struct in_pktinfo))) {
			struct cmsghdr *c = (struct cmsghdr *)msg->msg_control;
			c->cmsg_level = IPPROTO_IP; c->cmsg_type = IP_PKTINFO; c->cmsg_len = CMSG_LEN(sizeof(struct in_pktinfo));
			struct in_pktinfo pi; memset(&pi, 0, sizeof pi);
			memcpy(&pi.ipi_addr, d.dst.a, 4); memcpy(&pi.ipi_spec_dst, d.dst.a, 4); pi.ipi_ifindex = 2;
			memcpy(CMSG_DATA(c), &pi, sizeof pi);
			clen = CMSG_SPACE(sizeof(struct in_pktinfo));
		} else if (d.dst.fam == AF_INET6 && s->pktinfo6 && msg->msg_controllen >= CMSG_SPACE(sizeof(struct in6_pktinfo))) {
			struct cmsghdr *c = (struct cmsghdr *)msg->msg_control;
			c->cmsg_level = IPPROTO_IPV6; c->cmsg_type = IPV6_PKTINFO; c->cmsg_len = CMSG_LEN(sizeof(struct in6_pktinfo));
			struct in6_pktinfo pi; memset(&pi, 0, sizeof pi);
			memcpy(&pi.ipi6_addr, d.dst.a, 16); pi.ipi6_ifindex = 2;
			memcpy(CMSG_DATA(c), &pi, sizeof pi);
			clen = CMSG_SPACE(sizeof(struct in6_pktinfo));
		}
	}
	msg->msg_controllen = clen;
	msg->msg_flags = d.data.size() > cap ? MSG_TRUNC : 0;
	S->residue_prev = d.data;
#ifdef IOSIM_VG
	if (buf && cap > n) (void)VALGRIND_MAKE_MEM_UNDEFINED((char *)buf + n, cap - n);
#endif
	return (ssize_t)n;
}

// ------------------------------------------------------------------ tun + files
int __wrap_open(const char *path, int flags, ...)
{
	va_list ap; va_start(ap, flags);
	int mode = va_arg(ap, int);
	va_end(ap);
	if (in_task() && path && !strcmp(path, "/dev/net/tun")) {
		auto u = std::make_unique<Tun>();
		u->fd = S->alloc_fd(); u->owner = S->cur;
		int fd = u->fd;
		S->tuns[fd] = std::move(u);
		return fd;
	}
	return __real_open(path, flags, mode);
}

int __wrap_ioctl(int fd, unsigned long req, ...)
{
	va_list ap; va_start(ap, req);
	void *arg = va_arg(ap, void *);
	va_end(ap);
	Tun *u = tun_ofd(fd);
	if (!u) return __real_ioctl(fd, req, arg);
	if (req == TUNSETIFF && arg) {
		struct ifreq *ifr = (struct ifreq *)arg;
		u->ifname.assign(ifr->ifr_name, strnlen(ifr->ifr_name, IFNAMSIZ));
		return 0;
	}
	return 0;
}

ssize_t __wrap_read(int fd, void *buf, size_t n)
{
	Tun *u = tun_ofd(fd);
	if (!u) return __real_read(fd, buf, n);
	if (u->inq.empty()) { errno = EAGAIN; return -1; }
	Bytes p = std::move(u->inq.front());
	u->inq.pop_front();
	size_t c = p.size() < n ? p.size() : n;
	if (c) memcpy(buf, p.data(), c);
	S->tracef("TUNREAD %s len=%zu", u->owner->name.c_str(), c);
	S->fp_mix_str("tunr:" + u->owner->name); S->fp_mix(p.data(), c);
	for (auto m : S->monitors) m->on_tun_read(*u->owner, p);
	return (ssize_t)c;
}

ssize_t __wrap_write(int fd, const void *buf, size_t n)
{
	Tun *u = tun_ofd(fd);
	if (!u) return __real_write(fd, buf, n);
	VG_OUTPUT_DEFINED(buf, n);
	Bytes p = B(buf, n);
	S->tracef("TUNWRITE %s len=%zu %s", u->owner->name.c_str(), n, hexs(p, 24).c_str());
	S->fp_mix_str("tunw:" + u->owner->name); S->fp_mix(p.data(), p.size());
	for (auto m : S->monitors) m->on_tun_write(*u->owner, p);
	return (ssize_t)n;
}

// ------------------------------------------------------------------ process-level
int __wrap_system(const char *cmd)
{
	if (!in_task()) return __real_system(cmd);
	std::string c = cmd ? cmd : "";
	S->cur->system_cmds.push_back(c);
	S->tracef("SYSTEM %s: %s", S->cur->name.c_str(), c.c_str());
	S->fp_mix_str("system:" + c);
	for (auto m : S->monitors) m->on_system(*S->cur, c);
	return S->system_rc;
}

void __wrap_exit(int code)
{
	if (!in_task()) __real_exit(code);
	S->task_exit(code, true);
	abort();
}

void __wrap_err(int code, const char *fmt, ...)
{
	if (S && S->verbose) { va_list ap; va_start(ap, fmt); if (fmt) vfprintf(stderr, fmt, ap); fprintf(stderr, ": errno %d\n", errno); va_end(ap); }
	__wrap_exit(code);
}
void __wrap_errx(int code, const char *fmt, ...)
{
	if (S && S->verbose) { va_list ap; va_start(ap, fmt); if (fmt) vfprintf(stderr, fmt, ap); fputc('\n', stderr); va_end(ap); }
	__wrap_exit(code);
}

void __wrap_syslog(int, const char *, ...) {}
void __wrap_openlog(const char *, int, int) {}

sighandler_t __wrap_signal(int sig, sighandler_t h)
{
	if (!in_task()) return __real_signal(sig, h);
	if (sig >= 0 && sig < 32) S->cur->sig_handlers[sig] = h;
	return SIG_DFL;
}

uid_t __wrap_geteuid(void)
{
	if (!in_task()) return __real_geteuid();
	return 0;
}

// numeric-only resolver: the simulated world has no DNS other than iodine itself
int __wrap_getaddrinfo(const char *node, const char *service, const struct addrinfo *hints, struct addrinfo **res)
{
	if (!in_task()) return __real_getaddrinfo(node, service, hints, res);
	int fam = hints ? hints->ai_family : AF_UNSPEC;
	int port = service ? atoi(service) : 0;
	Addr a;
	if (!node) {
		bool passive = hints && (hints->ai_flags & AI_PASSIVE);
		if (fam == AF_INET6) { a.fam = AF_INET6; if (!passive) a.a[15] = 1; }
		else { a.fam = AF_INET; if (!passive) { a.a[0] = 127; a.a[3] = 1; } }
		if (fam == AF_INET6 && !S->hosts[S->cur->host].ip6.fam) return EAI_ADDRFAMILY;
	} else {
		uint8_t b[16];
		if ((fam == AF_UNSPEC || fam == AF_INET) && inet_pton(AF_INET, node, b) == 1) { a.fam = AF_INET; memcpy(a.a, b, 4); }
		else if ((fam == AF_UNSPEC || fam == AF_INET6) && inet_pton(AF_INET6, node, b) == 1) { a.fam = AF_INET6; memcpy(a.a, b, 16); }
		else return EAI_NONAME;
	}
	a.port = (uint16_t)port;
	struct addrinfo *ai = (struct addrinfo *)calloc(1, sizeof *ai + sizeof(struct sockaddr_storage));
	struct sockaddr_storage *ss = (struct sockaddr_storage *)(ai + 1);
	ai->ai_addrlen = a.to_sockaddr(ss);
	ai->ai_addr = (struct sockaddr *)ss;
	ai->ai_family = a.fam; ai->ai_socktype = SOCK_DGRAM; ai->ai_protocol = IPPROTO_UDP;
	*res = ai;
	return 0;
}
void __wrap_freeaddrinfo(struct addrinfo *ai)
{
	if (!in_task()) { __real_freeaddrinfo(ai); return; }
	free(ai);
}

} // extern "C"
