// Generation helpers.  Generators may use a sequential PRNG because everything
// they produce is written explicitly into the plan.
#pragma once
#include "sim.h"

struct Rng {
	uint64_t s;
	Rng(uint64_t seed, const char *stream) { s = splitmix64(seed ^ fnv1a(stream, strlen(stream))); }
	uint64_t next() { s += 0x9e3779b97f4a7c15ull; return splitmix64(s); }
	double uniform() { return (next() >> 11) * (1.0 / 9007199254740992.0); }
	bool chance(double p) { return uniform() < p; }
	int64_t range(int64_t lo, int64_t hi) { if (hi <= lo) return lo; return lo + (int64_t)(next() % (uint64_t)(hi - lo + 1)); }
	uint64_t pick_latency() { switch (range(0, 3)) { case 0: return range(100, 1000); case 1: return range(1000, 10000); case 2: return range(10000, 50000); default: return range(100, 50000); } }
	Bytes bytes(size_t n) { Bytes b(n); for (auto &x : b) x = (uint8_t)next(); return b; }
};

std::string gen_domain(Rng &r, int want_len = 0);
std::string gen_password(Rng &r);

J gen_tunnel(uint64_t seed, const J &ov);
struct World;
World *build_tunnel(const J &plan);
void gen_client_cfg(Rng &r, J &c, bool allow_raw, bool allow_auto_type, int domlen, int min_frag);
int fragsize_capacity(const std::string &qtype, const std::string &enc);
