# Per-property job tables for tools/check.py.
# job: scen = iosim scenario, sets = generator overrides, quick/thorough = number of simulated runs.

PROPS = {
    "C01": {
        "rule": "seeded runs of real iodined + 1..3 real iodine clients over all query types/codecs/lazy/-m/-M/raw with bidirectional tun traffic "
                "(1 byte .. 60 KB) and swarm-randomised drop/dup/delay fates; plus mode stale: a clean path on which answers from 4-7 packets back (which the 3-bit sequence numbers cannot tell from new "
                "ones) are delivered again between the fragments of multi-fragment packets, with incompressible frames that carry complete zlib streams aligned with the fragment boundaries (so a "
                "mis-reassembled packet would still inflate); non-trivial = handshake completed, at least one tun delivery and at least "
                "one fault fired; distinct = distinct run fingerprints (FNV-1a over every datagram, tun read/write, select wake-up and exit)",
        "jobs": [
            {"scen": "tunnel", "sets": {"mode": "faulty"}, "quick": 3000, "thorough": 120000},
            {"scen": "tunnel", "sets": {"mode": "faulty", "raw": True}, "quick": 600, "thorough": 20000},
            {"scen": "tunnel", "sets": {"mode": "stale"}, "quick": 1200, "thorough": 60000},
            # the open known finding (known_findings.json): a copy from exactly eight packets back + a frame pair Adler-32 cannot tell apart
            {"scen": "tunnel", "sets": {"mode": "stale8"}, "quick": 64, "thorough": 3000},
        ],
        "expect_probes": ["c01.offered", "c01.written", "c01.offered.tiny", "c01.offered.huge", "srv.raw_session"],
    },
    "C02": {
        "rule": "single real client <-> real server; (a) clean FIFO path: every accepted, fitting packet must be written exactly once in order; "
                "(b) 2-40 s of drop/dup/delay after the handshake (and, in a separate job, 2-27 s of the same while the handshake is running; the oracle then applies if the client reaches tunnel mode), then a clean path with continuing traffic every p seconds (p = 0.1-5 s, in a fifth of the runs sparse: 8-30 s): after T=60 s every accepted "
                "packet is delivered exactly once, in order, within 20 s and nobody exited. non-trivial = (a) >=5 packets accepted per side, (b) >=1 fault fired; "
                "distinct = distinct run fingerprints",
        "jobs": [
            {"scen": "tunnel", "sets": {"mode": "clean"}, "quick": 2500, "thorough": 100000},
            {"scen": "tunnel", "sets": {"mode": "clean", "raw": True}, "quick": 300, "thorough": 10000},
            {"scen": "tunnel", "sets": {"mode": "recover"}, "quick": 1200, "thorough": 60000},
            {"scen": "tunnel", "sets": {"mode": "recover", "hs": True}, "quick": 600, "thorough": 40000},
            # an open known finding (known_findings.json): raw mode tried from behind a resolver - the DNS queries come from the relay's address,
            # the raw login from the client's own - and the server's raw replies are lost: the session stays bound to the raw address
            {"scen": "tunnel", "sets": {"mode": "recover", "hs": True, "rawrelay": True}, "quick": 48, "thorough": 2000},
        ],
        "expect_probes": ["c02.cli.accept", "c02.srv.accept", "c02.cli.drained", "srv.outseq_wrap", "srv.inseq_wrap", "c02.srv.accept.raw"],
    },
    "C10": {
        "rule": "strict RFC 1035 parse of every DNS-mode datagram emitted by the real programs in tunnel runs (all types/codecs) plus forward-scenario runs in which askers send NS queries for the domain and names below it and A queries for ns./www. over IPv4 and IPv6 (content of those answers is checked: ns.<matched domain>, one address record), re-delivery runs and fragment-size probe runs; "
                "non-trivial = handshake completed and >=50 messages checked; distinct = distinct run fingerprints",
        "jobs": [
            {"scen": "tunnel", "sets": {"mode": "clean"}, "quick": 1500, "thorough": 50000},
            {"scen": "tunnel", "sets": {"mode": "faulty"}, "quick": 1500, "thorough": 50000},
            {"scen": "tunnel", "sets": {"mode": "redeliver", "retype": True}, "quick": 800, "thorough": 30000},
            {"scen": "forward", "sets": {}, "quick": 1500, "thorough": 50000},
            {"scen": "probe", "sets": {}, "quick": 600, "thorough": 30000},
        ],
        "expect_probes": ["c10.checked", "c10.ns_answers", "c10.ns_with_address", "c10.a_answers"],
    },
    "C14": {
        "rule": "ledger of every DNS query datagram the real server receives vs every answer it emits (one answer per received query, same asker, id and question); "
                "in runs without duplicating faults additionally <=2 unanswered ping/data queries per asker after every server step; "
                "non-trivial = handshake completed and both hold slots were occupied at least once; distinct = distinct run fingerprints",
        "jobs": [
            {"scen": "tunnel", "sets": {"mode": "clean"}, "quick": 1500, "thorough": 50000},
            {"scen": "tunnel", "sets": {"mode": "faulty"}, "quick": 1500, "thorough": 50000},
            {"scen": "sessions", "sets": {}, "quick": 800, "thorough": 40000},
            {"scen": "tunnel", "sets": {"mode": "redeliver", "retype": True}, "quick": 800, "thorough": 40000},
        ],
        "expect_probes": ["c14.answers", "c14.held2", "srv.both_slots_held", "srv.id2_remembered"],
    },
    "C05": {
        "rule": "real iodined (ASan+UBSan, no recovery) with an established canary session (and sometimes a second client mid-handshake) receives 30-600 generated hostile "
                "datagrams per run from up to 3 unauthenticated hosts (random bytes; DNS-shaped with pointer loops/over-long labels/truncation/high bytes; every tunnel command "
                "letter with adversarial lengths, userids and alphabets; raw frames incl. zlib bombs), hostile tun packets, and truncation/bit-flip of the sessions' own traffic; "
                "oracle: no sanitizer report, crash, hang or exit, and the canary satisfies the C02(b) recovery oracle afterwards. non-trivial = >=10 hostile datagrams reached the "
                "server socket in a run whose canary completed its handshake; distinct = distinct run fingerprints",
        "jobs": [
            {"scen": "hostile_srv", "sets": {}, "quick": 2000, "thorough": 150000},
            {"scen": "sessions", "sets": {}, "quick": 700, "thorough": 40000},
            {"scen": "sessions", "sets": {"focus": "fragsize"}, "quick": 800, "thorough": 40000},
        ],
        "own_viol": ["C05"],
        "expect_probes": ["c05.hostile_delivered", "c05.raw_frames", "c05.cmd.v", "c05.cmd.l", "c05.cmd.i", "c05.cmd.z", "c05.cmd.s", "c05.cmd.o", "c05.cmd.y", "c05.cmd.r", "c05.cmd.n", "c05.cmd.p", "c05.cmd.d"],
    },
    "C06": {
        "rule": "real iodine client (ASan+UBSan) against the real server with a hostile on-path party replacing a seeded subset of answers (at handshake steps, login, or in the tunnel) by "
                "generated hostile answers (hostile tunnel payloads in well-formed DNS for every type/codec; RDLENGTH games; bad TXT chunking; hostile CNAME names; 1-300 MX/SRV records with odd "
                "preferences and pointer expansion; lying counts; truncation) plus off-path spoofed answers and raw frames; and against a protocol-aware hostile model server (fakesrv) that keeps the handshake going while "
                "choosing hostile field values, payloads, malformed answers or silence per step and lies as a downstream sender; oracle: no sanitizer report, crash or hang in the client "
                "(spoof focus: handshake completes and both tun streams exact). non-trivial = >=1 answer replaced or spoofed, or >=3 protocol steps served by the model server; "
                "distinct = distinct run fingerprints",
        "jobs": [
            {"scen": "hostile_cli", "sets": {}, "quick": 4000, "thorough": 300000},
            {"scen": "hostile_cli", "sets": {"raw": True}, "quick": 500, "thorough": 30000},
            {"scen": "hostile_cli", "sets": {"focus": "spoof"}, "quick": 1200, "thorough": 80000},
            {"scen": "hostile_cli", "sets": {"focus": "spoof", "raw": True}, "quick": 600, "thorough": 40000},
            {"scen": "fakesrv", "sets": {}, "quick": 2500, "thorough": 200000},
            {"scen": "fakesrv", "sets": {"raw": True}, "quick": 500, "thorough": 40000},
        ],
        "expect_probes": ["c06.replaced.v", "c06.replaced.l", "c06.replaced.y", "c06.replaced.z", "c06.replaced.s", "c06.replaced.o", "c06.replaced.r", "c06.replaced.n", "c06.replaced.p", "c06.replaced.i", "c06.raw_replaced"],
    },
    "C13": {
        "rule": "real client login against the real server behind an on-path party that replaces every login answer with a generated hostile reply (four fields from a grammar of shell metacharacters, "
                "inet_addr-accepted oddities, near-valid spellings, out-of-range numbers) in all downstream encodings, and against the hostile model server whose login replies come from the same grammar; every system() argument of the client is tokenised: fixed words, strict dotted quads, mtu in 201..1500 only. "
                "non-trivial = >=1 login answer replaced; distinct = distinct run fingerprints",
        "jobs": [
            {"scen": "hostile_cli", "sets": {"focus": "login"}, "quick": 6000, "thorough": 300000},
            {"scen": "fakesrv", "sets": {"focus": "login"}, "quick": 3000, "thorough": 150000},
        ],
        "expect_probes": ["c06.login_replaced", "c13.system_calls"],
    },
    "C12": {
        "rule": "differential pairs: the same plan (hostile_srv / hostile_cli / faulty tunnel, all with truncation at arbitrary offsets, labels and pointers reaching the datagram end, RDLENGTH beyond the bytes present) "
                "is executed twice, differing only in what every receive buffer holds beyond the datagram (zeros vs 0xFF / marker text / the previous datagram / pointer-like bytes); any difference in the run fingerprint "
                "(all datagrams emitted, tun writes, wake-ups, exits) or in how the run ends is a violation. Through the guarded hook VERIF_TAIL (MANIFEST.hooks) the same pattern also fills the unused rest of every decode buffer "
                "(the client's reply buffers, the server's unpacked[] command buffer), so a decision that depends on what an earlier, longer reply or command left there differs between the two runs as well. In addition a sample of plain runs of six scenarios is executed under valgrind/memcheck "
                "(the same deterministic simulator, uninstrumented build): a branch, address or system call of the real programs that depends on bytes nobody wrote - stack or heap residue, which the pair runs "
                "cannot vary - is a violation, and so is any never-written byte in a datagram or tun frame the real programs emit (definedness check in the libc seam). evaluations counts pairs and memcheck runs; non-trivial = the underlying run was non-trivial; distinct = distinct fingerprints",
        "jobs": [
            {"scen": "hostile_srv", "sets": {"pair": True}, "quick": 700, "thorough": 60000},
            {"scen": "hostile_cli", "sets": {"pair": True}, "quick": 2000, "thorough": 150000},
            {"scen": "tunnel", "sets": {"mode": "faulty", "pair": True, "trunc": True}, "quick": 800, "thorough": 60000},
            {"scen": "fakesrv", "sets": {"pair": True}, "quick": 800, "thorough": 60000},
            # memcheck runs: the residue the pair runs cannot vary (stack and heap bytes nobody wrote) made visible as "uninitialised"
            {"scen": "hostile_cli", "sets": {}, "quick": 48, "thorough": 3000, "vg": True},
            {"scen": "fakesrv", "sets": {}, "quick": 48, "thorough": 3000, "vg": True},
            {"scen": "hostile_srv", "sets": {}, "quick": 32, "thorough": 2000, "vg": True},
            {"scen": "sessions", "sets": {}, "quick": 32, "thorough": 2000, "vg": True},
            {"scen": "tunnel", "sets": {"mode": "faulty"}, "quick": 32, "thorough": 2000, "vg": True},
            {"scen": "forward", "sets": {}, "quick": 16, "thorough": 1000, "vg": True},
        ],
        "expect_probes": [],
    },
    "C03": {
        "rule": "real iodined (check_ip on, and -c in ~15% of runs) with 0-2 real clients, 1-18 password-knowing model clients and 1-2 adversaries without the password over 90-240 virtual seconds: "
                "20-200 adversarial protocol messages (every DNS-mode and raw command with own/foreign/out-of-range userids, wrong/stale/short/off-by-one hashes, DNS-login hash replayed as raw login), "
                "wire-captured replays of legitimate logins/data/pings/raw logins from foreign addresses, spoofed-source requests and generated hostile commands. Oracle: independent authorisation model "
                "(challenge issued, bound address, MD5 response verified with the reference implementation); every server tun write, address disclosure, accepted S/O/N, probe reply, raw login/ping reply and tunnel answer must belong to an "
                "authorised request, and an unauthorised request leaves the security-relevant fields of every users[] entry unchanged. non-trivial = >=1 legitimate login and >=5 unauthorised requests processed; distinct = distinct run fingerprints",
        "jobs": [
            {"scen": "sessions", "sets": {}, "quick": 1800, "thorough": 120000},
        ],
        "expect_probes": ["c03.login_ok", "c03.vack", "c03.unauthorised_steps", "c03.srv_tun_writes", "c03.ip_disclosed", "c03.codec_switched", "c03.option_set", "c03.fragsize_set", "c03.rawlogin_ok"],
    },
    "C04": {
        "rule": "same sessions scenario (subnets /8../30, server host position varied, up to 18 contenders for <=16 slots, sessions going silent and late joiners clustered 58-63 s after): oracles (1) a request naming a slot from a foreign "
                "address (v4/v6, spoofed) leaves that session's full digest and last_pkt unchanged; (2) every downstream packet the reference reassembler completes (DNS fragments or raw frames) carries ip_dst == the address assigned "
                "to the session it was sent to, and was not read when the owner was clearly expired; (3) no VACK names a slot whose session was active < 59 s ago, a session silent > 62 s is refused, assigned addresses are distinct, in-subnet and not the server's. "
                "non-trivial as C03; distinct = distinct run fingerprints",
        "jobs": [
            {"scen": "sessions", "sets": {}, "quick": 1800, "thorough": 120000},
        ],
        "expect_probes": ["c04.foreign_requests", "c04.routed_packets", "c04.slot_reused", "c04.badip"],
    },
}

PROPS["C16"] = {
    "rule": "single real client <-> real server on an otherwise clean FIFO path (all query types/codecs, lazy and immediate, Base32 upstream forced by a case-changing relay in about half the runs); the only fault kind is "
            "re-delivery of the client's ping/data queries 1 us .. 3 s later: verbatim, with a new DNS id, with re-cased letters (Base32 upstream only), or from another source address; copies outside the window the statement "
            "quantifies over (more than 12 data / 26 ping queries received since the original was processed) are suppressed by the harness. Oracles: (1) both tun streams stay exactly-once and in order (the C02(a) oracle); "
            "(2) a server step that processed only a re-delivery leaves inpacket/outpacket len, offset, seqno, fragment and queue fill unchanged; (3) an identical repeat of a query whose answer is among the model's last 4 "
            "gets the same payload (also an identical repeat of a relay's re-cased copy that was answered with it); any other repeat of an answered query gets only the 1-byte marker, a refusal, silence or the cached payload of its original; (4) from a foreign address with source checking: BADIP only; (5) no downstream packet is written to the client's tun a second time. "
            "In 40% of the direct-path runs the client first tried raw mode, every raw frame of the server is lost and copies of the client's raw login datagrams arrive 3-55 s late (fault rawlate); the query that was waiting at the server when such a copy arrived is re-delivered at the moment the server has sent the fragment its ack names, after an aimed workload has let the 3-bit sequence number come round. "
            "non-trivial = handshake completed and >=1 re-delivery processed; distinct = distinct run fingerprints",
    "jobs": [
        {"scen": "tunnel", "sets": {"mode": "redeliver"}, "quick": 3000, "thorough": 150000},
    ],
    "expect_probes": ["c16.redelivered", "c16.repeat_of_answered", "c16.repeat_of_pending", "c16.recased", "c16.newid", "c16.altsrc", "c16.cache_hit_same_payload", "c16.marker", "c16.foreign_refused"],
}
PROPS["C15"] = {
    "rule": "wire-only oracle on every data answer of the real server: payload after the 2-byte header <= fragment size in force for that session (100 until the server echoes an accepted N), N below 2 never accepted, fragments of a downstream "
            "packet numbered 0,1,2,.. (a re-send repeats the number and starts at the same offset), last-fragment flag exactly where the zlib stream of the packet ends; run over faulty tunnel sessions (real client, -m 2..1200 or autoprobe, "
            "answers lost/duplicated so fragments are re-sent), re-delivery sessions (cache replays) and the sessions scenario (model clients with and without N, F 2..65535, server MTU up to 8000). "
            "non-trivial = >=1 multi-fragment downstream packet observed; distinct = distinct run fingerprints",
    "jobs": [
        {"scen": "tunnel", "sets": {"mode": "faulty"}, "quick": 1500, "thorough": 60000},
        {"scen": "sessions", "sets": {"focus": "fragsize"}, "quick": 1500, "thorough": 80000},
    ],
    "expect_probes": ["c15.data_answers", "c15.multifrag", "c15.resends", "c15.n_accepted", "c15.data_before_n", "c15.n_huge", "c15.n_tiny"],
}

PROPS["C20"] = {
    "rule": "real iodined -b <port> (plain and '*.' wildcard domains, IPv4 and IPv6 listeners); 1-6 asker hosts send 1-200 queries for names outside and near the tunnel domain (suffix without label boundary, one label more/less, "
            "63-octet labels, 253-character names, case variants of the domain) with ids drawn from pools of 4..60000 values (reuse, id 0, more than 16 outstanding); a model local DNS on 127.0.0.1:<port> replies after 50 us..4 s "
            "(reordering), not at all, twice, or with ids nobody used. Oracle (ledger of the 16 most recent forwards): each non-tunnel query yields exactly one datagram to the local port with the same id, name and type, tunnel names none; "
            "a local reply whose id is unique among the remembered 16 goes unchanged, exactly once, to that asker; with reused ids only to an asker that used the id; an id matching none of the 16 reaches nobody; datagrams from the local port too short to carry an id (1-11 octets) reach nobody. A second job adds question names that have a '.' or a 0 octet inside a label, compared label by label (open known finding). "
            "non-trivial = >=1 query forwarded and >=1 reply relayed; distinct = distinct run fingerprints",
    "jobs": [
        {"scen": "forward", "sets": {}, "quick": 6000, "thorough": 400000},
        # the open known finding (known_findings.json): question names with a '.' or a 0 octet inside a label (legal DNS; DNS-SD instance names) are
        # relayed under another name or not at all - iodined holds names as dotted C strings
        {"scen": "forward", "sets": {"oddlabels": True}, "quick": 400, "thorough": 20000},
    ],
    "expect_probes": ["c20.asked", "c20.asked_v6", "c20.forwarded", "c20.relayed", "c20.relay_ok", "c20.reply_unknown_id", "c20.reply_id_ambiguous", "c20.ring_wrapped", "c20.tunnel_names"],
}

PROPS["C11"] = {
    "rule": "real client with full autodetection (query type forced in ~40% of runs; codecs and fragment size always negotiated) through an in-path relay applying one fixed transformation drawn from the product of: query-name case keep/lower/upper/random, "
            "answer-name case likewise, bytes >= 0x80 in query names keep/strip/reject, in answer names keep/strip, '+' and '_' keep/mangle/reject, refused record types (SERVFAIL/NOTIMP/silence), answer size limit none/512/768/1232/1500/4096 with drop/SERVFAIL/TC, "
            "EDNS0 honoured/stripped/dropped, answer-record shuffling, re-encoding, id rewriting, TTL rewriting; otherwise lossless. Oracle (1): if the handshake completes, packets offered on both sides are delivered exactly once, in order, intact (the C02(a) oracle); "
            "(2) if the transformation leaves at least one usable record type and passes 512-byte answers, the handshake must complete. In a fifth of the runs (and in a job of its own) the client is stopped, its slot expires, "
            "the relay switches to a second transformation and a new client negotiates afresh on the same slot: the same two clauses are judged for the second session. "
            "non-trivial = handshake completed and >=3 packets accepted per side (or a completed second session); distinct = distinct run fingerprints",
    "jobs": [
        {"scen": "tunnel", "sets": {"mode": "relayfam"}, "quick": 2500, "thorough": 150000},
        {"scen": "tunnel", "sets": {"mode": "relayfam", "two": True}, "quick": 400, "thorough": 20000},
    ],
    "expect_probes": ["c11.must_succeed", "c11.may_fail", "c11.handshake_ok", "c11.up.Base32", "c11.up.Base64", "c11.up.Base64u", "c11.up.Base128", "c11.down.T", "c11.down.S", "c11.down.U", "c11.down.V", "c11.down.R", "c11.frag.lt200", "c11.frag.ge1200", "c11.second.handshake_ok", "c11.second.delivered_all"],
}

PROPS["C08"] = {
    "rule": "short real-client/real-server sessions over L (-M 100..255, boundaries favoured) x domain length 3..min(128, L-24) x upstream codec (forced through the path: case-changing relay -> Base32, 8-bit-unclean -> Base64, "
            "'+'-mangling -> Base64u, clean -> Base128) x plain/wildcard-served domain, with 8-30 upstream packets of 40..1400 bytes (all chunk-tail residues) and fragsize autoprobe in half of the runs. Every query name the client emits is judged "
            "on the wire: strict RFC 1035 parse, labels 1..63, <= 255 bytes, presentation length <= L for data/probe/ping/version/login/set-fragsize names, suffix = tunnel domain at a label boundary; data chunks reference-decode to exactly the "
            "next contiguous non-empty slice of compress2(packet) with the last flag exactly at its end; after the server processed a chunk its reassembly buffer equals the slices sent so far; handshake names decode to (a prefix of) the documented fields. In the sessions scenario the same server-side comparison is made for protocol (model) clients that build their names with an independent encoder in all four codecs, including clients that inherit the slot of an expired session which had negotiated another codec. "
            "non-trivial = handshake completed and both full and tail chunks observed; distinct = distinct run fingerprints",
    "jobs": [
        {"scen": "tunnel", "sets": {"mode": "names"}, "quick": 4000, "thorough": 250000},
        {"scen": "sessions", "sets": {}, "quick": 1000, "thorough": 60000},
    ],
    "expect_probes": ["c08.names", "c08.d", "c08.r", "c08.p", "c08.v", "c08.l", "c08.n", "c08.full_chunks", "c08.tail_chunks", "c08.srv_prefix_checked", "c08.near_limit", "c08.codec.Base64", "c08.codec.Base64u", "c08.codec.Base128"],
}

PROPS["C09"] = {
    "rule": "four pairings over every query type (NULL, PRIVATE, TXT, SRV, MX, CNAME, A) x downstream codec (T,S,U,V,R): (i) real iodined answers a scripted protocol client's fragment-size probes (about 140 lengths per run out of 0..2047: format boundaries, a contiguous window, a random sample, "
            "in random order, with minimum- and maximum-length query names) and the reference decoder must obtain the documented probe pattern exactly, or a proper prefix / nothing - never other bytes - with the exactly-delivered lengths downward-closed per cell; "
            "(ii) the real client receives the same tunnel payloads re-encoded in transit by the reference encoder (different record layout, same protocol) and (iii) the real server's own encoding, with fragment sizes up to what one answer can carry and with autoprobe: "
            "every packet must then be delivered intact, once, in order (a wrongly extracted fragment of any length breaks a packet); (iv) an on-path sender built on the reference encoder takes over the idle downstream channel of a real session and feeds the real client packets cut into fragments of arbitrary lengths (1 byte .. 4090 bytes for NULL, PRIVATE, TXT, SRV and MX, 110 for hostname answers) in arbitrary order, waiting for the client's acks: the client must write exactly those packets; in autoprobe runs the fragment size the client requests must be the largest probed size whose reply reached it exactly according to the reference decoder (a client that extracts other bytes misjudges its own probes). non-trivial = (i) >=5 exact deliveries, (ii)/(iii) handshake completed and >=5 packets accepted per side; distinct = distinct run fingerprints",
    "jobs": [
        {"scen": "probe", "sets": {}, "quick": 3000, "thorough": 200000},
        {"scen": "tunnel", "sets": {"mode": "clean9"}, "quick": 1500, "thorough": 80000},
        {"scen": "tunnel", "sets": {"mode": "inject9"}, "quick": 1200, "thorough": 80000},
    ],
    "expect_probes": ["c09.probes", "c09.exact", "c09.prefix", "c09.cells_with_threshold", "c02.cli.accept", "c02.srv.accept", "c09.autoprobe_judged", "c09.inj_fragments", "c09.inj_packets_acked", "c09.inj_tiny", "c09.inj_full"],
}

PROPS["C18"] = {
    "rule": "real iodined started with server addresses at positions 1..20 and last-host of subnets /8../30 (small subnets favoured) and up to 18 contenders (model and real clients) competing for the pool, sessions expiring and slots being reused over 90-240 virtual seconds: "
            "(1) every userid handed out is < min(16, subnet size - 3) and VFUL is never answered while a slot is unused or silent for more than 62 s; (2) every address in a login reply is inside the subnet, distinct from the other sessions', and not the server's, network or broadcast address; "
            "(3) lookup: a packet read from the server's tun for the address of a session that is logged in and was surely active within 55 s must be queued for or sent to exactly that session (peek at users[] after the step, and the wire), "
            "and packets for addresses without such an owner never reach a session (C04 routing clause). non-trivial = >=1 login and >=1 lookup judged; distinct = distinct run fingerprints",
    "jobs": [
        {"scen": "sessions", "sets": {"focus": "pool"}, "quick": 2000, "thorough": 120000},
        {"scen": "sessions", "sets": {}, "quick": 600, "thorough": 40000},
    ],
    "expect_probes": ["c18.addresses_checked", "c18.lookup_checked", "c18.vful", "c18.last_slot_used", "c04.routed_packets", "c04.slot_reused"],
    "nontriv_probe": "c18.lookup_checked",
}

LEVEL_TEXT = {
    "C18": "Exploration: the pool arithmetic is observed through live sessions (who gets which userid and address, when VFUL is said) over sampled subnets and server positions, and the time-dependent lookup by tunnel address is judged against a wire-level model of which session is live and logged in.",
    "C08": "Exploration: every query name the unmodified client emits in short real sessions over sampled (L, domain length, upstream codec, payload) is parsed strictly, length-checked and reference-decoded on the wire, and compared slice by slice with compress2 of the packet read from tun and with the server's reassembly buffer. Sampled, not enumerated.",
    "C09": "Exploration: real server encodings decoded by an independent reference decoder over sampled lengths in every (type, codec, name-length) cell with a downward-closure check; reference encodings and real encodings fed to the real client in live sessions judged by exact packet delivery.",
    "C11": "Exploration: the real client's autodetection runs end to end through sampled fixed path transformations; a completed handshake must be followed by exact delivery, and negotiation must complete whenever Base32, 512-byte answers and one record type pass.",
    "C15": "Exploration: wire-only size/numbering/last-flag oracle on every data answer of the real server over faulty real-client sessions and scripted sessions with fragment sizes 2..65535, changes in mid-session and server packets up to 9000 bytes.",
    "C16": "Exploration: seeded re-delivery schedules (verbatim, new id, re-cased, foreign source; gated to the window the statement quantifies over) against live real sessions; session stream positions, answer contents and both tun streams are checked around every re-delivery.",
    "C20": "Exploration: seeded sequences of forwarded queries and local-DNS reply schedules (late, reordered, dropped, duplicated, unknown ids) against the real server with -b; a ledger of the 16 most recent forwards decides where each reply may go.",
    "C03": "Exploration: seeded adversarial histories against the real server in virtual time, judged by an independent authorisation model and by users[] snapshots around every processed datagram.",
    "C04": "Exploration: seeded multi-session histories with spoofers and expiry/reuse timing, judged by a wire-level model of slot ownership and a reference downstream reassembler.",
    "C12": "Exploration by differential replay: exact determinism of the simulator turns the uncontrolled stale receive-buffer content into an explicit input; every pair must behave identically. Plus memcheck over sampled simulated runs for decisions that depend on never-written memory.",
    "C05": "Exploration: sanitizer-instrumented real server inside live sessions under generated hostile datagram sequences (millions of datagrams per thorough run); a clean batch is evidence of absence for the generated classes only.",
    "C06": "Exploration: sanitizer-instrumented real client with hostile answers substituted at every handshake step and in the tunnel, and against a hostile model server that serves the whole protocol with hostile field values; sampling over answer shapes, positions and per-step choices.",
    "C13": "Exploration: every system() argument produced by the real client under generated hostile login replies is validated token by token.",
    "C01": "Exploration: thousands of seeded end-to-end sessions of the unmodified client(s) and server under loss, duplication, reordering and delay; every tun write is compared byte for byte against the ledger of packets read from a peer's tun. Sampling over (configuration x traffic x fault schedule); a clean batch is evidence, not proof.",
    "C02": "Exploration: (a) clean-path exactly-once in-order delivery of every accepted fitting packet, (b) bounded-time recovery (eventually-always under continuing traffic) after a 2-40 s fault prefix, over seeded configurations and fault schedules in virtual time.",
    "C10": "Exploration: an independent strict RFC 1035 parser judges every DNS-mode datagram the real programs emit across all simulated sessions; answers are matched to the query they echo.",
    "C14": "Exploration: wire-level ledger (one answer per received query datagram, same asker/id) over all simulated histories, plus the <=2 held queries bound in runs without injected duplicates.",
}

NOT_APPLICABLE = {
    "C07": "pure function of (bytes, capacity): no schedule, clock, fault or peer for a simulator to vary (DESIGN.md section 8); codec defects that affect traffic still surface through C01/C02/C08/C09",
    "C17": "pure string predicates check_topdomain/query_datalen: nothing for a simulator to vary (DESIGN.md section 8)",
    "C19": "pure hash of (password, challenge); no history or fault dimension (DESIGN.md section 8); the independent MD5/login reference must agree with the real code for C03/C04 scenarios to log in at all",
}

# properties whose check is not registered (yet); kept current so MANIFEST.not_applicable covers every unclaimed id
NOT_CLAIMED = {
}
