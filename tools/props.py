# Per-property job tables for tools/check.py.
# job: scen = iosim scenario, sets = generator overrides, quick/thorough = number of simulated runs.

PROPS = {
    "C01": {
        "rule": "seeded runs of real iodined + 1..3 real iodine clients over all query types/codecs/lazy/-m/-M/raw with bidirectional tun traffic "
                "(1 byte .. 60 KB) and swarm-randomised drop/dup/delay fates; non-trivial = handshake completed, at least one tun delivery and at least "
                "one fault fired; distinct = distinct run fingerprints (FNV-1a over every datagram, tun read/write, select wake-up and exit)",
        "jobs": [
            {"scen": "tunnel", "sets": {"mode": "faulty"}, "quick": 3000, "thorough": 120000},
            {"scen": "tunnel", "sets": {"mode": "faulty", "raw": True}, "quick": 600, "thorough": 20000},
        ],
        "expect_probes": ["c01.offered", "c01.written", "c01.offered.tiny", "c01.offered.huge", "srv.raw_session"],
    },
    "C02": {
        "rule": "single real client <-> real server; (a) clean FIFO path: every accepted, fitting packet must be written exactly once in order; "
                "(b) 2-40 s of drop/dup/delay after the handshake, then a clean path with continuing traffic every p seconds: after T=60 s every accepted "
                "packet is delivered exactly once, in order, within 20 s and nobody exited. non-trivial = (a) >=5 packets accepted per side, (b) >=1 fault fired; "
                "distinct = distinct run fingerprints",
        "jobs": [
            {"scen": "tunnel", "sets": {"mode": "clean"}, "quick": 2500, "thorough": 100000},
            {"scen": "tunnel", "sets": {"mode": "clean", "raw": True}, "quick": 300, "thorough": 10000},
            {"scen": "tunnel", "sets": {"mode": "recover"}, "quick": 1200, "thorough": 60000},
        ],
        "expect_probes": ["c02.cli.accept", "c02.srv.accept", "c02.cli.drained", "srv.outseq_wrap", "srv.inseq_wrap", "c02.srv.accept.raw"],
    },
    "C10": {
        "rule": "strict RFC 1035 parse of every DNS-mode datagram emitted by the real programs in tunnel runs (all types/codecs) plus probe runs with NS/A queries; "
                "non-trivial = handshake completed and >=50 messages checked; distinct = distinct run fingerprints",
        "jobs": [
            {"scen": "tunnel", "sets": {"mode": "clean"}, "quick": 1500, "thorough": 50000},
            {"scen": "tunnel", "sets": {"mode": "faulty"}, "quick": 1500, "thorough": 50000},
        ],
        "expect_probes": ["c10.checked"],
    },
    "C14": {
        "rule": "ledger of every DNS query datagram the real server receives vs every answer it emits (one answer per received query, same asker and id); "
                "in runs without duplicating faults additionally <=2 unanswered ping/data queries per asker after every server step; "
                "non-trivial = handshake completed and both hold slots were occupied at least once; distinct = distinct run fingerprints",
        "jobs": [
            {"scen": "tunnel", "sets": {"mode": "clean"}, "quick": 1500, "thorough": 50000},
            {"scen": "tunnel", "sets": {"mode": "faulty"}, "quick": 1500, "thorough": 50000},
        ],
        "expect_probes": ["c14.answers", "c14.held2", "srv.both_slots_held", "srv.id2_remembered"],
    },
}

LEVEL_TEXT = {
    "C01": "Exploration: thousands of seeded end-to-end sessions of the unmodified client(s) and server under loss, duplication, reordering and delay; every tun write is compared byte for byte against the ledger of packets read from a peer's tun. Sampling over (configuration x traffic x fault schedule); a clean batch is evidence, not proof.",
    "C02": "Exploration: (a) clean-path exactly-once in-order delivery of every accepted fitting packet, (b) bounded-time recovery (eventually-always under continuing traffic) after a 2-40 s fault prefix, over seeded configurations and fault schedules in virtual time.",
    "C10": "Exploration: an independent strict RFC 1035 parser judges every DNS-mode datagram the real programs emit across all simulated sessions; answers are matched to the query they echo.",
    "C14": "Exploration: wire-level ledger (one answer per received query datagram, same asker/id) over all simulated histories, plus the <=2 held queries bound in runs without injected duplicates.",
}

NOT_APPLICABLE = {
    "C07": "pure function of (bytes, capacity): no schedule, clock, fault or peer for a simulator to vary (DESIGN.md section 8); codec defects that affect traffic still surface through C01/C02/C08/C09",
    "C17": "pure string predicates check_topdomain/query_datalen: nothing for a simulator to vary (DESIGN.md section 8)",
    "C18": "pure arithmetic on (address, netmask) in init_users; the time-dependent lookup half is exercised under C04 (DESIGN.md section 8)",
    "C19": "pure hash of (password, challenge); no history or fault dimension (DESIGN.md section 8); the independent MD5/login reference must agree with the real code for C03/C04 scenarios to log in at all",
}

# properties whose check is not registered (yet); kept current so MANIFEST.not_applicable covers every unclaimed id
NOT_CLAIMED = {
    "C03": "check under construction in this session (auth scenario with model clients); not claimed until it is sound",
    "C04": "check under construction in this session (multi-session scenario); not claimed until it is sound",
    "C05": "check under construction in this session (hostile datagrams against the server); not claimed until it is sound",
    "C06": "check under construction in this session (hostile replies against the client); not claimed until it is sound",
    "C08": "check under construction in this session; not claimed until it is sound",
    "C09": "check under construction in this session; not claimed until it is sound",
    "C11": "check under construction in this session (relay family); not claimed until it is sound",
    "C12": "check under construction in this session (residue-differential pairs); not claimed until it is sound",
    "C13": "check under construction in this session (login reply injection); not claimed until it is sound",
    "C15": "check under construction in this session; not claimed until it is sound",
    "C16": "check under construction in this session; not claimed until it is sound",
    "C20": "check under construction in this session (forwarding scenario); not claimed until it is sound",
}
