#!/usr/bin/env python3
"""Determinism self-test of the simulator (not a registered check).

For every (scenario, sets) job used by any property: run N seeds with 16 workers and again with 5 workers
(different worker processes, different fork order and stride), plus a sample of seeds one by one in fresh
processes; the run fingerprint (FNV-1a over every datagram, tun read/write, wake-up and exit), the violation
list and the event count must agree for every seed.  Usage: selftest_determinism.py [N per job, default 300]
Writes build/determinism.json and prints a summary; exit 0 = all identical, 2 = divergence.
"""
import sys, os, json, subprocess, time
VERIF = os.path.dirname(os.path.dirname(os.path.abspath(__file__)))
os.chdir(VERIF)
sys.path.insert(0, os.path.join(VERIF, "tools"))
import check  # noqa: E402
from props import PROPS  # noqa: E402


def key(res):
    return (res.get("fp"), res.get("events"), json.dumps(res.get("viol", []), sort_keys=True), res.get("crash"), res.get("what"))


def main():
    n = int(sys.argv[1]) if len(sys.argv) > 1 else 300
    binary = check.build("asan")
    jobs = {}
    for pid, spec in PROPS.items():
        for j in spec["jobs"]:
            jobs[(j["scen"], json.dumps(j.get("sets", {}), sort_keys=True))] = j
    report = {"per_job": [], "seeds_per_job": n}
    bad = 0
    t0 = time.time()
    for (scen, _), j in sorted(jobs.items()):
        sets = j.get("sets", {})
        base = 770000000
        check.NW = 16
        a = {r["seed"]: key(r) for r in check.run_workers(binary, scen, sets, base, n) if "seed" in r}
        check.NW = 5
        b = {r["seed"]: key(r) for r in check.run_workers(binary, scen, sets, base, n) if "seed" in r}
        check.NW = 16
        common = sorted(set(a) & set(b))
        diff = [s for s in common if a[s] != b[s]]
        # fresh single processes for a sample
        single_diff = []
        for s in common[:12]:
            r = check.run_one(binary, ["--gen", scen, "--seed", str(s)] + check.sets_args(sets))
            if key(r) != a[s]:
                single_diff.append(s)
        report["per_job"].append({"scenario": scen, "sets": sets, "seeds_compared": len(common), "diverging_16_vs_5_workers": diff[:10], "diverging_fresh_process": single_diff})
        bad += len(diff) + len(single_diff)
        print("%-12s %-40s %5d seeds  16-vs-5 workers: %d differ   fresh process (12): %d differ" % (scen, json.dumps(sets)[:40], len(common), len(diff), len(single_diff)), flush=True)
    report["wall_s"] = round(time.time() - t0, 1)
    report["diverging_total"] = bad
    os.makedirs("build", exist_ok=True)
    json.dump(report, open("build/determinism.json", "w"), indent=1)
    print("determinism: %d diverging seeds over %d jobs, %.0f s" % (bad, len(jobs), report["wall_s"]))
    sys.exit(2 if bad else 0)


if __name__ == "__main__":
    main()
