#!/usr/bin/env python3
"""Ad-hoc sweep (development aid, not a registered check): tools/adhoc.py <scenario> <runs> [key=value ...] [--base N] [--filter substr]
Prints violation classes with counts and the lowest seeds, plus selected counters."""
import sys, os, json, collections
sys.argv0 = sys.argv[:]
sys.path.insert(0, os.path.dirname(os.path.abspath(__file__)))
import check  # noqa

def main():
    a = sys.argv[1:]
    scen, n = a[0], int(a[1])
    sets, base, filt = {}, 990000000, None
    i = 2
    while i < len(a):
        if a[i] == "--base": base = int(a[i + 1]); i += 2; continue
        if a[i] == "--filter": filt = a[i + 1]; i += 2; continue
        k, v = a[i].split("=", 1)
        sets[k] = True if v == "true" else False if v == "false" else v
        i += 1
    binary = check.build("asan")
    cls = collections.defaultdict(list)
    cnt = collections.Counter()
    nt = tot = 0
    for res in check.run_workers(binary, scen, sets, base, n):
        if "seed" not in res: print("ERR", res); continue
        tot += 1
        nt += 1 if res.get("nontriv") else 0
        for k, v in res.get("cnt", {}).items(): cnt[k] += v
        for v in res.get("viol", []): cls[v["p"] + "/" + v["clause"]].append((res["seed"], v["detail"]))
        if "crash" in res: cls["crash/" + str(res.get("what"))[:60] + "/" + str(res.get("where", ""))[:60]].append((res["seed"], res.get("task", "")))
    print("runs", tot, "nontrivial", nt)
    for k, v in sorted(cls.items()):
        v.sort()
        print("%-40s %5d  seeds %s" % (k, len(v), [s for s, _ in v[:4]]))
        print("      e.g.", v[0][1][:300])
    if filt:
        for k, v in sorted(cnt.items()):
            if filt in k: print("  ", k, v)

main()
