#!/usr/bin/env python3
"""Seeded-change bookkeeping (sensitivity of the checks; not a registered check).

  seeded.py import <srcdir> <id>        copy patch.diff, demo/, README.md from a sub-agent's output into seeded/<id>/
  seeded.py confirm <id>                in a scratch worktree of /repo: demo passes unpatched; patched tree builds, `make test`
                                        passes and the demo fails; writes the outcome into seeded/<id>/meta.json
  seeded.py detect <id> [Cxx ...]       apply the patch in a scratch worktree and run the quick check(s) against it
                                        (default: the property the change was written for); records which checks fire
Scratch trees live under /var/tmp/iodine-seeded and are removed when done.
"""
import sys, os, json, subprocess, shutil, time

VERIF = os.path.dirname(os.path.dirname(os.path.abspath(__file__)))
SCRATCH = "/var/tmp/iodine-seeded"


def sh(cmd, **kw):
    return subprocess.run(cmd, shell=isinstance(cmd, str), stdout=subprocess.PIPE, stderr=subprocess.STDOUT, text=True, errors="replace", **kw)


def meta_path(i):
    return os.path.join(VERIF, "seeded", i, "meta.json")


def load_meta(i):
    p = meta_path(i)
    return json.load(open(p)) if os.path.exists(p) else {"id": i}


def save_meta(i, m):
    with open(meta_path(i), "w") as f:
        json.dump(m, f, indent=1)
        f.write("\n")


def worktree(i):
    d = os.path.join(SCRATCH, i)
    os.makedirs(SCRATCH, exist_ok=True)
    if os.path.exists(d):
        sh(["git", "-C", "/repo", "worktree", "remove", "--force", d])
        shutil.rmtree(d, ignore_errors=True)
    r = sh(["git", "-C", "/repo", "worktree", "add", "--detach", d, os.environ.get("SEEDED_BASE", "HEAD")])
    if r.returncode:
        raise SystemExit(r.stdout)
    return d


def drop(i):
    d = os.path.join(SCRATCH, i)
    sh(["git", "-C", "/repo", "worktree", "remove", "--force", d])
    shutil.rmtree(d, ignore_errors=True)
    sh(["git", "-C", "/repo", "worktree", "prune"])


def apply_patch(d, i):
    patch = os.path.join(VERIF, "seeded", i, "patch.diff")
    r = sh(["git", "-C", d, "apply", "--3way", patch])
    if r.returncode:
        r = sh(["git", "-C", d, "apply", patch])
    return r


def cmd_import(src, i):
    dst = os.path.join(VERIF, "seeded", i)
    os.makedirs(dst, exist_ok=True)
    shutil.copy(os.path.join(src, "patch.diff"), os.path.join(dst, "patch.diff"))
    if os.path.isdir(os.path.join(dst, "demo")):
        shutil.rmtree(os.path.join(dst, "demo"))
    shutil.copytree(os.path.join(src, "demo"), os.path.join(dst, "demo"))
    if os.path.exists(os.path.join(src, "README.md")):
        shutil.copy(os.path.join(src, "README.md"), os.path.join(dst, "README.md"))
    m = load_meta(i)
    m.setdefault("property", i.split("-")[0])
    m["origin"] = "independent sub-agent given only the property text and a scratch worktree"
    save_meta(i, m)


def cmd_confirm(i):
    d = worktree(i)
    demo = os.path.join(VERIF, "seeded", i, "demo", "run.sh")
    m = load_meta(i)
    out = {}
    try:
        r0 = sh(["bash", demo, d], timeout=600)
        out["demo_unpatched_rc"] = r0.returncode
        ap = apply_patch(d, i)
        out["patch_applies"] = ap.returncode == 0
        if ap.returncode == 0:
            b = sh("make -C %s 2>&1 | tail -3" % d)
            out["build_ok"] = os.path.exists(os.path.join(d, "bin", "iodined"))
            t = sh("make -C %s test 2>&1 | grep -E 'Checks:|Failures'" % d)
            out["tests"] = t.stdout.strip()
            out["tests_pass"] = "Failures: 0, Errors: 0" in t.stdout
            sh("git -C %s clean -fdxq -e src" % d)
            r1 = sh(["bash", demo, d], timeout=600)
            out["demo_patched_rc"] = r1.returncode
            out["demo_patched_tail"] = r1.stdout.strip().split("\n")[-3:]
        else:
            out["patch_error"] = ap.stdout[-400:]
        out["confirmed"] = bool(out.get("demo_unpatched_rc") == 0 and out.get("patch_applies") and out.get("build_ok") and out.get("tests_pass") and out.get("demo_patched_rc") not in (0, None))
    finally:
        drop(i)
    m["confirmation"] = out
    m["confirmed_at_repo_head"] = sh(["git", "-C", "/repo", "log", "--format=%h", "-1", os.environ.get("SEEDED_BASE", "HEAD")]).stdout.strip()
    save_meta(i, m)
    print(i, "CONFIRMED" if out.get("confirmed") else "NOT CONFIRMED", json.dumps(out)[:300])


def cmd_detect(i, props, tier="quick"):
    m = load_meta(i)
    if not props:
        props = [m.get("property", i.split("-")[0])]
    d = worktree(i)
    res = m.setdefault("detection", {})
    try:
        ap = apply_patch(d, i)
        if ap.returncode:
            print(i, "patch does not apply:", ap.stdout[-300:])
            return
        for p in props:
            env = dict(os.environ, VERIF_MINIMISE_BUDGET=os.environ.get("VERIF_MINIMISE_BUDGET", "40"), VERIF_REPO=d, VERIF_BUILD="build/seeded-" + i, VERIF_REPLAYS=os.path.join(VERIF, "build", "seeded-" + i, "replays"),
                       VERIF_EVIDENCE=os.path.join(VERIF, "build", "seeded-" + i, "evidence"))
            t0 = time.time()
            r = subprocess.run(["python3", "tools/check.py", p, tier], cwd=VERIF, env=env, stdout=subprocess.PIPE, stderr=subprocess.PIPE, text=True)
            lines = [l for l in (r.stdout + r.stderr).split("\n") if l.startswith("VIOLATION") or l.startswith("violation class") or l.startswith("HARNESS")]
            res[p + ":" + tier] = {"rc": r.returncode, "wall_s": round(time.time() - t0, 1), "lines": [l[:260] for l in lines][:6]}
            print(i, p, tier, "rc=%d" % r.returncode, "DETECTED" if r.returncode == 1 else "missed" if r.returncode == 0 else "HARNESS-ERROR")
            for l in lines[:4]:
                print("   ", l[:220])
    finally:
        drop(i)
        shutil.rmtree(os.path.join(VERIF, "build", "seeded-" + i), ignore_errors=True)
    save_meta(i, m)


def cmd_table():
    """markdown table of all seeded changes (for DESIGN.md 11.6)"""
    import glob, re
    rows = []
    for mp in sorted(glob.glob(os.path.join(VERIF, "seeded", "*", "meta.json")), key=lambda x: (os.path.basename(os.path.dirname(x)).split("-")[0], int(re.sub(r"\D", "", os.path.basename(os.path.dirname(x)).split("-m")[1])))):
        i = os.path.basename(os.path.dirname(mp))
        m = json.load(open(mp))
        rd = os.path.join(os.path.dirname(mp), "README.md")
        title = open(rd).read().strip().split("\n")[0].lstrip("# ").strip() if os.path.exists(rd) else ""
        title = re.sub(r"^C\d\d\s*(/|seeded change|,)?\s*(m|change)?\s*\d*\s*[-:]*\s*", "", title)[:110].replace("|", "/")
        conf = m.get("confirmation", {}).get("confirmed")
        det = []
        for k, v in sorted(m.get("detection", {}).items()):
            if v.get("rc") == 1:
                cl = ""
                for l in v.get("lines", []):
                    mm = re.search(r"violation class (?:viol|crash)/([^/ ]+)", l)
                    if mm:
                        cl = mm.group(1)
                        break
                det.append(k.split(":")[0] + (" " + cl if cl else ""))
        miss = [k.split(":")[0] for k, v in m.get("detection", {}).items() if v.get("rc") == 0]
        note = "rebased" if m.get("rebased") else ""
        if m.get("status"):
            note = (note + " " if note else "") + m["status"].split(":")[0]
        if m.get("strengthened"):
            note = (note + "; " if note else "") + m["strengthened"]
        own = m.get("property", i.split("-")[0])
        dtxt = ", ".join(det) if det else ("MISSED by " + ",".join(miss) if miss else "-")
        if det and own in miss:
            dtxt += " (not by %s itself)" % own
        rows.append("| %s | %s | %s | %s | %s |" % (i, title, "yes" if conf else "no", dtxt, note))
    print("| id | change | confirmed | detected by (check, first violation class) | note |")
    print("|---|---|---|---|---|")
    print("\n".join(rows))


if __name__ == "__main__":
    a = sys.argv[1:]
    if not a:
        raise SystemExit(__doc__)
    if a[0] == "import":
        cmd_import(a[1], a[2])
    elif a[0] == "confirm":
        cmd_confirm(a[1])
    elif a[0] == "table":
        cmd_table()
    elif a[0] == "detect":
        tier = os.environ.get("SEEDED_TIER", "quick")
        cmd_detect(a[1], a[2:], tier)
    else:
        raise SystemExit(__doc__)
