#!/usr/bin/env python3
"""Regenerates /verif/MANIFEST.json from tools/props.py (single source of the claimed set)."""
import json, os, sys
VERIF = os.path.dirname(os.path.dirname(os.path.abspath(__file__)))
sys.path.insert(0, os.path.join(VERIF, "tools"))
from props import PROPS, LEVEL_TEXT, NOT_APPLICABLE, NOT_CLAIMED  # noqa

checks = []
for pid in sorted(PROPS):
    if pid in NOT_CLAIMED:
        continue
    p = PROPS[pid]
    checks.append({
        "property_id": pid,
        "quick_cmd": "python3 tools/check.py %s quick" % pid,
        "thorough_cmd": "python3 tools/check.py %s thorough" % pid,
        "evidence_file": "evidence/%s.json" % pid,
        "replay_cmd_template": "python3 tools/check.py --replay {path}",
        "engine": "iosim",
        "level_claimed": {"category": "exploration", "text": LEVEL_TEXT[pid], "design_ref": "DESIGN.md section 7 (%s)" % pid},
        "level_note": "Trusted base: the simulator kernel and libc seam (sim/kernel.cc, sim/wraps.cc), the independent reference DNS parser/codecs/protocol "
                      "decoders (sim/ref.cc), system zlib, clang ASan/UBSan; Linux #ifdef branch only; sampling, not proof.",
        "technique": p.get("technique", "deterministic simulation with fault injection: real iodined and iodine run as fibers over a simulated network/clock/tun, seeded search over schedules and faults, ddmin-minimised replay"),
    })

na = [{"property_id": k, "reason": v} for k, v in sorted(NOT_APPLICABLE.items())]
na += [{"property_id": k, "reason": v} for k, v in sorted(NOT_CLAIMED.items())]

m = {
    "version": 1,
    "setup_cmd": "make -f tools/Makefile -j16 FLAVOR=asan REPO=/repo",
    "hooks": {
        "guard": "IODINE_VERIF",
        "enable": "tools/Makefile compiles /repo/src with -DLINUX -DIODINE_VERIF; the only hook is the macro VERIF_TAIL(buf, used, cap) (common.h; 7 call sites in client.c and iodined.c behind decode calls), which calls "
                  "iodine_verif_tail() provided by sim/wraps.cc to poison the unused rest of decode buffers (C12 pair runs, memcheck flavour). Without the define it expands to nothing. Every other seam is link-time "
                  "(-Wl,--wrap=select,sendto,recvfrom,... and objcopy symbol localisation).",
        "baseline_off_cmd": "make -C /repo test",
        "source_commits": ["47826a4"],
        "add_only": True,
    },
    "engines": [{"name": "iosim", "path": "sim/", "serves_properties": sorted(k for k in PROPS if k not in NOT_CLAIMED), "kind_free_text": "deterministic discrete-event simulator hosting the real client and server as ucontext fibers; keyed PRNG decisions; fork-per-run; ASan+UBSan"}],
    "checks": checks,
    "not_applicable": na,
    "notes": "known_findings.json lists genuine defects (fixed ones name their fix: commit in /repo). VERIF_SEED selects the seed block, VERIF_TIER overrides the tier, VERIF_SCALE scales run counts.",
}
with open(os.path.join(VERIF, "MANIFEST.json"), "w") as f:
    json.dump(m, f, indent=1)
    f.write("\n")
print("MANIFEST.json: %d checks, %d not claimed" % (len(checks), len(na)))
