#!/usr/bin/env python3
"""Development aid: gate and minimise one seed into a replay file.
  VERIF_REPO=<tree> VERIF_BUILD=<builddir> tools/mkreplay.py <property> <clause> <scenario> <seed> [key=value ...]
Writes $VERIF_REPLAYS/<property>/<clause>-x-<seed>.json (default /verif/replays/<property>/)."""
import sys, os
sys.path.insert(0, os.path.dirname(os.path.abspath(__file__)))
import check  # noqa
from props import PROPS  # noqa

pid, clause, scen, seed = sys.argv[1], sys.argv[2], sys.argv[3], int(sys.argv[4])
sets = {}
for kv in sys.argv[5:]:
    k, v = kv.split("=", 1)
    sets[k] = True if v == "true" else False if v == "false" else v
job = {"scen": scen, "sets": sets}
binary = check.build("asan")
res = check.run_one(binary, ["--gen", scen, "--seed", str(seed)] + check.sets_args(sets))
cls = None
for c in check.classes_of(res, pid, PROPS[pid]):
    if c[1] == clause or clause in c[1]:
        cls = c
if cls is None:
    print("seed does not show", clause, "got", check.classes_of(res, pid, PROPS[pid])); sys.exit(2)
path, note = check.gate_and_minimise(binary, pid, PROPS[pid], job, seed, cls, res)
print(path, note)
