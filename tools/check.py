#!/usr/bin/env python3
"""Check driver: tools/check.py <Cxx> <quick|thorough>   (cwd /verif)

Builds iosim from /repo's working tree, runs seeded simulations on all cores,
gates and minimises violations, writes evidence/<id>.json.
Exit 0: property held on everything explored (KNOWN-FINDING lines allowed).
Exit 1: VIOLATION property=<id> replay=<path> printed.
Exit 2: harness trouble (build failure, nondeterminism) - never a verdict.
"""
import sys, os, json, subprocess, time, math, fcntl, copy, hashlib, shutil

VERIF = os.path.dirname(os.path.dirname(os.path.abspath(__file__)))
os.chdir(VERIF)
sys.path.insert(0, os.path.join(VERIF, "tools"))
from props import PROPS   # noqa: E402

REPO = os.environ.get("VERIF_REPO", "/repo")
NW = int(os.environ.get("VERIF_WORKERS", "16"))
BUILDDIR = os.environ.get("VERIF_BUILD", "build")      # relative to /verif; scratch trees use their own
SANLOG = os.path.join(VERIF, BUILDDIR, "sanlog")
REPLAYS = os.environ.get("VERIF_REPLAYS", os.path.join(VERIF, "replays"))
EVIDENCE = os.environ.get("VERIF_EVIDENCE", os.path.join(VERIF, "evidence"))


def log(*a):
    print(*a, file=sys.stderr, flush=True)


def build(flavor):
    os.makedirs(os.path.join(VERIF, BUILDDIR), exist_ok=True)
    os.makedirs(SANLOG, exist_ok=True)
    with open(os.path.join(VERIF, BUILDDIR, ".lock"), "w") as lk:
        fcntl.flock(lk, fcntl.LOCK_EX)
        r = subprocess.run(["make", "-f", "tools/Makefile", "-j", str(NW), "FLAVOR=" + flavor, "REPO=" + REPO, "BUILDDIR=" + BUILDDIR],
                           stdout=subprocess.PIPE, stderr=subprocess.STDOUT, text=True)
        if r.returncode != 0:
            log(r.stdout[-4000:])
            log("HARNESS-ERROR: build failed")
            sys.exit(2)
    return os.path.join(VERIF, BUILDDIR, flavor, "iosim")


def sets_args(sets):
    a = []
    for k, v in sets.items():
        if isinstance(v, bool):
            v = "true" if v else "false"
        a += ["--set", "%s=%s" % (k, v)]
    return a


def run_workers(binary, scen, sets, base, n, wall_budget=None):
    """yield result dicts from NW parallel workers"""
    per = int(math.ceil(n / NW))
    procs = []
    for w in range(NW):
        cmd = [binary, "--worker", scen, "--from", str(base + w), "--count", str(per), "--stride", str(NW), "--sanlog", SANLOG] + sets_args(sets)
        procs.append(subprocess.Popen(cmd, stdout=subprocess.PIPE, stderr=subprocess.DEVNULL, text=True, bufsize=1 << 20))
    t0 = time.time()
    import selectors
    sel = selectors.DefaultSelector()
    for p in procs:
        os.set_blocking(p.stdout.fileno(), False)
        sel.register(p.stdout, selectors.EVENT_READ, p)
    bufs = {p: "" for p in procs}
    alive = set(procs)
    while alive:
        for key, _ in sel.select(timeout=1.0):
            p = key.data
            try:
                chunk = os.read(p.stdout.fileno(), 1 << 20).decode("utf-8", "replace")
            except BlockingIOError:
                continue
            if not chunk:
                sel.unregister(p.stdout)
                alive.discard(p)
                continue
            bufs[p] += chunk
            while "\n" in bufs[p]:
                line, bufs[p] = bufs[p].split("\n", 1)
                if line.strip():
                    try:
                        yield json.loads(line)
                    except Exception:
                        yield {"error": "unparsable result line", "raw": line[:200]}
        if wall_budget and time.time() - t0 > wall_budget:
            for p in alive:
                p.kill()
            break
    for p in procs:
        p.wait()


def run_one(binary, args, timeout=120):
    r = subprocess.run([binary] + args + ["--sanlog", SANLOG], stdout=subprocess.PIPE, stderr=subprocess.DEVNULL, text=True, timeout=timeout)
    line = r.stdout.strip().split("\n")[-1] if r.stdout.strip() else "{}"
    try:
        return json.loads(line)
    except Exception:
        return {"error": "unparsable", "raw": line[:300]}


REPO_FILES = ("client.c", "iodined.c", "iodine.c", "dns.c", "read.c", "user.c", "encoding.c", "base32.c", "base64.c", "base64u.c", "base128.c", "common.c", "tun.c",
              "login.c", "md5.c", "fw_query.c", "util.c")
VG_KINDS = (("Uninitialised byte(s) found during client check request", "uninit.output"), ("Conditional jump or move depends on uninitialised", "uninit.branch"), ("Use of uninitialised value", "uninit.use"), ("Syscall param", "uninit.syscall"),
            ("Invalid read", "invalid.read"), ("Invalid write", "invalid.write"), ("Source and destination overlap", "overlap"), ("Invalid free", "invalid.free"),
            ("Mismatched free", "invalid.free"), ("Argument", "fishy.argument"))


def parse_valgrind(err):
    """valgrind error blocks -> list of {kind, where, task} for errors whose innermost non-libc frame is in /repo/src"""
    out = []
    blocks = []
    cur = None
    for line in err.split("\n"):
        if not line.startswith("=="):
            continue
        t = line.split("== ", 1)[1] if "== " in line else ""
        kind = None
        for pat, k in VG_KINDS:
            if t.startswith(pat):
                kind = k
        if kind:
            cur = {"kind": kind, "frames": []}
            blocks.append(cur)
        elif cur is not None and (t.lstrip().startswith("at ") or t.lstrip().startswith("by ")):
            cur["frames"].append(t.strip())
        elif cur is not None and not t.strip():
            cur = None
    for b in blocks:
        where, task, harness = "", "", False
        for f in b["frames"]:
            # "at 0x...: func (file.c:123)"
            if "(" not in f:
                continue
            func = f.split(": ", 1)[1].split(" (")[0] if ": " in f else "?"
            loc = f.rsplit("(", 1)[1].rstrip(")")
            fn = loc.split(":")[0]
            if not where:
                if fn in REPO_FILES:
                    where = "%s@%s" % (func, loc)
                elif fn == "wraps.cc" and func.startswith("__wrap_"):
                    continue          # the libc seam itself (e.g. the definedness check of outgoing bytes): look at its caller
                elif fn.endswith(".cc") or fn.endswith(".h"):
                    harness = True
                    break
            if func == "iodined_main":
                task = "srv"
            elif func.endswith("_main") and func[0] == "c" and func[1:-5].isdigit():
                task = func[:-5]
        if where and not harness:
            out.append({"kind": b["kind"], "where": where, "task": task})
    return out


def run_vg(binary, args, timeout=900):
    """one run under valgrind/memcheck (binary = the vg flavour); the result carries the parsed errors as res['vg']"""
    env = dict(os.environ, IOSIM_ASLR_OFF="1")
    cmd = ["valgrind", "-q", "--num-callers=12", "--error-limit=no", binary] + args + ["--nofork"]
    try:
        r = subprocess.run(cmd, stdout=subprocess.PIPE, stderr=subprocess.PIPE, timeout=timeout, env=env)
    except subprocess.TimeoutExpired:
        return {"error": "valgrind timeout", "args": args}
    outl = [l for l in r.stdout.decode("utf-8", "replace").split("\n") if l.startswith("{")]
    try:
        res = json.loads(outl[-1]) if outl else {"error": "no result line under valgrind", "rc": r.returncode}
    except Exception:
        res = {"error": "unparsable result under valgrind"}
    res["vg"] = parse_valgrind(r.stderr.decode("utf-8", "replace"))
    return res


def run_vg_workers(binary, scen, sets, base, n):
    from concurrent.futures import ThreadPoolExecutor
    def one(seed):
        res = run_vg(binary, ["--gen", scen, "--seed", str(seed)] + sets_args(sets))
        res.setdefault("seed", seed)
        return res
    with ThreadPoolExecutor(max_workers=NW) as ex:
        for res in ex.map(one, [base + i for i in range(n)]):
            yield res


def crash_func(res):
    w = res.get("where", "")
    return w.split("@")[0] if w else ""


def is_harness_crash(res):
    """sanitizer report whose faulting location is in the harness, not in /repo/src"""
    if res.get("crash") != "sanitizer":
        return False
    log_ = res.get("log", "")
    for line in log_.split("\n"):
        if "runtime error:" in line:
            loc = line.split(": runtime error:")[0]
            return "/src/" not in loc
        if line.lstrip().startswith("#0 "):
            # ASan: first frame that is not an interceptor decides
            continue
    frames = [l for l in log_.split("\n") if l.lstrip().startswith("#")]
    for l in frames[:4]:
        if "/repo/src/" in l or "/src/" in l and "/verif/" not in l:
            return False
        if "/verif/sim/" in l:
            return True
    return False


def classes_of(res, pid, spec):
    """violation classes of property pid present in one result"""
    cl = []
    for v in res.get("viol", []):
        if v["p"] == pid:
            cl.append(("viol", v["clause"], ""))
    if "crash" in res:
        task = res.get("task", "")
        prop = None
        if task == "srv":
            prop = "C05"
        elif task.startswith("c") and task[1:].isdigit():
            prop = "C06"
        if is_harness_crash(res):
            prop = None
        if prop == pid:
            cl.append(("crash", res["crash"] + ":" + res.get("what", "").split(" ")[0][:40], crash_func(res)))
    for e in res.get("vg", []):
        # memcheck: a decision or output that depends on bytes nobody wrote is C12's subject (interpretation from stale memory);
        # invalid accesses belong to the memory-safety properties of the program they happen in
        if e["kind"].startswith("uninit"):
            prop = "C12"
        else:
            prop = "C05" if e["task"] == "srv" else "C06"
        c = ("vg", e["kind"], e["where"].split("@")[0])
        if prop == pid and c not in cl:
            cl.append(c)
    return cl


def class_key(c):
    return "%s/%s/%s" % c


def load_known():
    p = os.path.join(VERIF, "known_findings.json")
    if not os.path.exists(p):
        return []
    return json.load(open(p)).get("findings", [])


def known_match(pid, c, known, job=None):
    for k in known:
        if k.get("status") != "known" or k.get("property") != pid:
            continue
        m = k.get("match", {})
        if m.get("sets") is not None and (job is None or job.get("sets", {}) != m["sets"]):
            continue          # a listed finding is tied to the job (history class) that shows it; the same clause elsewhere is new
        if m.get("kind") and m["kind"] != c[0]:
            continue
        if m.get("clause") and m["clause"] != c[1]:
            continue
        if m.get("clause_prefix") and not c[1].startswith(m["clause_prefix"]):
            continue
        if m.get("where") and m["where"] != c[2]:
            continue
        return k
    return None


def with_fates(plan, res):
    p = copy.deepcopy(plan)
    p["fates"] = res.get("fired", [])
    p["explicit_fates"] = True
    return p


def write_json(path, obj):
    os.makedirs(os.path.dirname(path), exist_ok=True)
    with open(path, "w") as f:
        json.dump(obj, f)
        f.write("\n")


class Replayer:
    def __init__(self, binary, pid, spec, tmpdir, runner=None):
        self.binary, self.pid, self.spec, self.tmpdir = binary, pid, spec, tmpdir
        self.runner = runner or run_one
        self.n = 0

    def run(self, plan):
        self.n += 1
        path = os.path.join(self.tmpdir, "cand.%d.json" % os.getpid())
        write_json(path, plan)
        res = self.runner(self.binary, ["--replay", path])
        return res

    def has(self, plan, cls):
        res = self.run(plan)
        return cls in classes_of(res, self.pid, self.spec), res


def ddmin(items, test, budget):
    """classic ddmin on a list; test(list)->bool (True = still fails)"""
    n = 2
    while len(items) >= 1 and budget[0] > 0:
        chunk = max(1, len(items) // n)
        reduced = False
        i = 0
        while i < len(items) and budget[0] > 0:
            cand = items[:i] + items[i + chunk:]
            budget[0] -= 1
            if test(cand):
                items = cand
                n = max(n - 1, 2)
                reduced = True
            else:
                i += chunk
        if not reduced:
            if chunk == 1:
                break
            n = min(len(items), n * 2)
    return items


def minimise(rp, plan, cls, max_tests=None):
    if max_tests is None:
        max_tests = int(os.environ.get("VERIF_MINIMISE_BUDGET", "250"))
    budget = [max_tests]
    plan = copy.deepcopy(plan)
    for key in ("fates", "ops"):
        if not isinstance(plan.get(key), list) or not plan[key]:
            continue

        def test(lst, key=key):
            cand = dict(plan)
            cand[key] = lst
            ok, _ = rp.has(cand, cls)
            return ok
        # try empty first
        budget[0] -= 1
        if test([]):
            plan[key] = []
        else:
            plan[key] = ddmin(plan[key], test, budget)
    return plan


def gate_and_minimise(binary, pid, spec, job, seed, cls, first_res):
    """returns (replay_path or None, note). None => harness nondeterminism"""
    tmpdir = os.path.join(VERIF, BUILDDIR, "tmp")
    os.makedirs(tmpdir, exist_ok=True)
    planpath = os.path.join(tmpdir, "plan.%d.json" % os.getpid())
    runner = run_vg if job.get("vg") else run_one
    if job.get("vg"):
        binary = os.path.join(VERIF, BUILDDIR, "vg", "iosim")
    res2 = runner(binary, ["--gen", job["scen"], "--seed", str(seed), "--plan-out", planpath] + sets_args(job.get("sets", {})))
    if cls not in classes_of(res2, pid, spec) or res2.get("fp") != first_res.get("fp"):
        return None, "re-run of seed %d differs (fp %s vs %s)" % (seed, res2.get("fp"), first_res.get("fp"))
    plan = json.load(open(planpath))
    plan = with_fates(plan, res2)
    rp = Replayer(binary, pid, spec, tmpdir, runner)
    ok, res3 = rp.has(plan, cls)
    if not ok:
        return None, "explicit replay of seed %d does not reproduce %s" % (seed, class_key(cls))
    mplan = minimise(rp, plan, cls, max_tests=min(int(os.environ.get("VERIF_MINIMISE_BUDGET", "250")), 40) if job.get("vg") else None)
    ok1, r1 = rp.has(mplan, cls)
    ok2, r2 = rp.has(mplan, cls)
    if not (ok1 and ok2) or r1.get("fp") != r2.get("fp"):
        return None, "minimised replay is not stable"
    mplan["expect"] = {"property": pid, "class": list(cls), "fp": r1.get("fp"), "detail": [v for v in r1.get("viol", []) if v["p"] == pid][:1] or r1.get("what", "") or [e for e in r1.get("vg", []) if e["kind"] == cls[1]][:1]}
    if job.get("vg"):
        mplan["expect"]["runner"] = "valgrind"
    name = "%s-%s-%d.json" % (cls[1].replace("/", "_").replace(":", "_").replace(" ", "_")[:40] or cls[0], (cls[2] or "x")[:30], seed)
    path = os.path.join(REPLAYS, pid, name)
    write_json(path, mplan)
    return path, "minimised in %d replays: %d ops, %d fates" % (rp.n, len(mplan.get("ops", [])), len(mplan.get("fates", [])))


def do_replay(path):
    plan = json.load(open(path))
    exp = plan.get("expect", {})
    pid = exp.get("property", "?")
    if exp.get("runner") == "valgrind":
        res = run_vg(build("vg"), ["--replay", path])
    else:
        res = run_one(build("asan"), ["--replay", path])
    cls = tuple(exp.get("class", []))
    got = classes_of(res, pid, PROPS.get(pid, {}))
    print(json.dumps({k: res.get(k) for k in ("viol", "crash", "what", "where", "task", "fp", "vg")}))
    if cls in got:
        print("VIOLATION property=%s replay=%s" % (pid, path))
        return 1
    print("replay did not reproduce %s (got %s)" % (class_key(cls) if cls else "?", [class_key(c) for c in got]))
    return 0


def main():
    if len(sys.argv) >= 3 and sys.argv[1] == "--replay":
        sys.exit(do_replay(sys.argv[2]))
    if len(sys.argv) < 3 or sys.argv[1] not in PROPS:
        log("usage: check.py <property> <quick|thorough> | --replay file")
        sys.exit(2)
    pid = sys.argv[1]
    tier = os.environ.get("VERIF_TIER") or sys.argv[2]
    if tier not in ("quick", "thorough"):
        tier = "quick"
    try:
        seed0 = abs(int(os.environ.get("VERIF_SEED", "1") or "1")) % 1000000000
    except ValueError:
        seed0 = int(hashlib.sha256(os.environ["VERIF_SEED"].encode()).hexdigest()[:7], 16)
    spec = PROPS[pid]
    t_start = time.time()
    binary = build("asan")
    known = load_known()

    agg = {"evaluations": 0, "capped": 0, "crashes": 0, "sim_s": 0.0, "events": 0}
    counters = {}
    fps = set()
    abs_states, abs_trans = set(), set()
    sigs = {}
    samples = []
    found = {}      # class -> (job, seed, res)
    notes = {}      # other-property hits
    errors = []
    jobs_done = []
    vgseen = {}
    scale = float(os.environ.get("VERIF_SCALE", "1"))
    for ji, job in enumerate(spec["jobs"]):
        n = max(NW, int(job[tier] * scale))
        base = seed0 * 100000000 + ji * 10000000
        tj = time.time()
        if job.get("vg"):
            n = max(NW, int(job[tier] * scale)) if job[tier] else 0
            results = run_vg_workers(build("vg"), job["scen"], job.get("sets", {}), base, n)
        else:
            results = run_workers(binary, job["scen"], job.get("sets", {}), base, n)
        nj = 0
        for res in results:
            if "error" in res and "seed" not in res:
                errors.append(res)
                continue
            nj += 1
            agg["evaluations"] += 1
            if res.get("capped"):
                agg["capped"] += 1
            agg["sim_s"] += res.get("sim_us", 0) / 1e6
            agg["events"] += res.get("events", 0)
            for k, v in res.get("cnt", {}).items():
                counters[k] = counters.get(k, 0) + v
            abs_states.update(res.get("abs_states", ()))
            abs_trans.update(res.get("abs_trans", ()))
            if res.get("nontriv") and not res.get("capped"):
                fps.add(res.get("fp"))
                s = res.get("sig", "")
                sigs[s] = sigs.get(s, 0) + 1
                if len(samples) < 3:
                    samples.append({"scenario": job["scen"], "sets": job.get("sets", {}), "seed": res.get("seed"), "config": s,
                                    "sim_s": res.get("sim_us", 0) / 1e6, "events": res.get("events"),
                                    "counters": {k: v for k, v in list(res.get("cnt", {}).items())[:24]}})
            if "crash" in res:
                agg["crashes"] += 1
            if job.get("vg"):
                agg["vg_runs"] = agg.get("vg_runs", 0) + 1
                for e in res.get("vg", []):
                    k = "vg/%s/%s" % (e["kind"], e["where"])
                    vgseen[k] = vgseen.get(k, 0) + 1
            for c in classes_of(res, pid, spec):
                if c not in found or res["seed"] < found[c][1]:
                    found[c] = (job, res["seed"], res)
            # other properties' hits -> notes
            for v in res.get("viol", []):
                if v["p"] != pid:
                    k = v["p"] + "/" + v["clause"]
                    notes[k] = notes.get(k, 0) + 1
            if "crash" in res and not classes_of(res, pid, spec):
                k = "crash/%s/%s/%s" % (res.get("task"), res.get("what", "")[:40], crash_func(res))
                notes[k] = notes.get(k, 0) + 1
                if (res.get("task", "") == "" and res["crash"] != "hang") or is_harness_crash(res):
                    errors.append({"error": "crash outside any simulated task", "seed": res.get("seed"), "what": res.get("what"), "log": res.get("log", "")[:600]})
        jobs_done.append({"scenario": job["scen"], "sets": job.get("sets", {}), "runs": nj, "wall_s": round(time.time() - tj, 1), **({"runner": "valgrind memcheck"} if job.get("vg") else {})})

    # ---- verdicts
    rc = 0
    viol_lines = []
    known_lines = []
    unknown = []
    for c, (job, seed, res) in sorted(found.items(), key=lambda x: x[1][1]):
        k = known_match(pid, c, known, job)
        if k:
            kl = "KNOWN-FINDING: property=%s %s" % (pid, k.get("what", class_key(c)))
            if kl not in known_lines:
                known_lines.append(kl)
        else:
            unknown.append((c, job, seed, res))
    for c, job, seed, res in unknown[:4]:
        path, note = gate_and_minimise(binary, pid, spec, job, seed, c, res)
        if path is None:
            log("HARNESS-NONDETERMINISM: %s" % note)
            errors.append({"error": "nondeterminism", "note": note})
            rc = 2
            continue
        detail = [v["detail"] for v in res.get("viol", []) if v["p"] == pid and v["clause"] == c[1]][:1] or [res.get("what", "") + " " + res.get("where", "")]
        log("violation class %s seed %d: %s (%s)" % (class_key(c), seed, detail[0], note))
        viol_lines.append("VIOLATION property=%s replay=%s" % (pid, path))
    if errors and rc == 0 and any(e.get("error") != "unparsable result line" for e in errors):
        rc = 2
    if viol_lines:
        rc = 1

    wall = time.time() - t_start
    fault_counts = {k: v for k, v in counters.items() if k.startswith("fault.") or k.startswith("relay.")}
    probe_counts = {k[6:]: v for k, v in counters.items() if k.startswith("probe.")}
    ev = {
        "property_id": pid, "tier": tier, "seed": seed0, "level": "exploration",
        "coverage": {
            "evaluations": agg["evaluations"],
            "distinct_nontrivial": len(fps),
            "rule": spec["rule"],
            "samples": samples if samples else [{"note": "no non-trivial run in this batch"}],
            "runs_per_hour": int(agg["evaluations"] / max(wall, 1e-3) * 3600),
            "simulated_seconds": round(agg["sim_s"], 1),
            "scheduler_steps": agg["events"],
            "fault_firings": fault_counts,
            "probes": probe_counts,
            "probes_at_zero": [p for p in spec.get("expect_probes", []) if not probe_counts.get(p)],
            "configurations_visited": len(sigs),
            "server_session_abstract_states": {"measure": "distinct values of (lazy, query held, realsoon held, duplicate remembered, outpacket active, queue fill 0-4, resend count 0-6, inpacket mid-assembly, out-fragment class, conn type, authenticated, raw-authenticated) over all sessions after every server step",
                                               "distinct_states": len(abs_states), "distinct_transitions": len(abs_trans)},
            "configuration_histogram_top": dict(sorted(sigs.items(), key=lambda x: -x[1])[:12]),
            "capped_inconclusive_runs": agg["capped"],
            "abnormal_child_ends": agg["crashes"],
            "jobs": jobs_done,
            "other_property_hits": notes,
            "memcheck": {"runs_under_valgrind": agg.get("vg_runs", 0), "errors_in_repo_code": vgseen},
            "known_findings_seen": known_lines,
            "components": {"real": ["src/iodine.c", "src/client.c", "src/iodined.c", "src/user.c", "src/fw_query.c", "src/dns.c", "src/read.c", "src/encoding.c",
                                    "src/base32.c", "src/base64.c", "src/base64u.c (generated)", "src/base128.c", "src/login.c", "src/md5.c", "src/common.c", "src/tun.c", "src/util.c"],
                           "stub": ["UDP/IP network", "tun device", "clock/select/sleep", "rand", "system()", "syslog", "getaddrinfo", "signals", "relays/attackers/resolvers (model peers)"]},
            "harness_errors": errors[:5],
        },
        "assumptions": spec.get("assumptions", []) + ["Linux #ifdef branch only", "zlib and the sanitizers are trusted", "UDP datagrams are atomic; tun reads return whole packets"],
        "wall_s": round(wall, 2),
        "violations": len(viol_lines),
    }
    write_json(os.path.join(EVIDENCE, pid + ".json"), ev)
    for l in known_lines:
        print(l)
    for l in viol_lines:
        print(l)
    print("%s %s: %d runs, %d distinct non-trivial, %d violation class(es), %d known, wall %.1fs" %
          (pid, tier, agg["evaluations"], len(fps), len(viol_lines), len(known_lines), wall))
    sys.exit(rc)


if __name__ == "__main__":
    main()
